package bloomsearch

import (
	"context"
	"io"
)

// ---------------------------------------------------------------------------------------------
// C21 — queries release every resource they acquire.
//   (1) fileHandlePool under every protocol-abiding operation sequence: a handle is never lent to
//       two holders, never lent after being closed, and once the last reference is gone / closeAll
//       ran every handle ever opened has been closed exactly once;
//   (2) the real filter pass and the real block scan hand back (put) or close (discard) the handle
//       they acquired exactly once on every path — open/read/parse failures, cancellation at any
//       context observation — and never return a handle whose read failed to the pool;
//   (3) the real Query pipeline with all its goroutines, consumer draining, closing or cancelling
//       at an arbitrary point: when Next has returned false / Close has returned, every handle
//       opened is closed exactly once, the MetaStore iterator has returned, no goroutine of the
//       query is alive, and the whole concurrency budget is back.
// ---------------------------------------------------------------------------------------------

// vpTrackedStore: OpenFile succeeds or fails arbitrarily and every handle it ever returned is
// remembered, so that "closed exactly once" can be checked per handle.
type vpTrackedStore struct {
	vpStore
	handles []*vpReader
}

func (s *vpTrackedStore) OpenFile(ctx context.Context, p []byte) (io.ReadSeekCloser, error) {
	h, err := s.vpStore.OpenFile(ctx, p)
	if err == nil {
		s.handles = append(s.handles, h.(*vpReader))
	}
	return h, err
}

func (s *vpTrackedStore) allClosedOnce() bool {
	for _, h := range s.handles {
		if h.closed != 1 {
			return false
		}
	}
	return true
}

//vp:bounds up to 6 pool operations (retain / acquire / put / discard / release / closeAll) chosen arbitrarily among those the reader protocol allows, over 2 files, at most 3 handles checked out; OpenFile fails or succeeds arbitrarily
func H_C21_handle_pool_operation_sequences() {
	w := vpNewWorld()
	w.openMaySucceed = true
	store := &vpTrackedStore{vpStore: vpStore{w}}
	pool := newFileHandlePool(store)
	ptrs := [][]byte{vpSrcPointer(0), vpSrcPointer(1)}
	refs := []int{0, 0}
	type held struct {
		h    io.ReadSeekCloser
		file int
	}
	var out []held
	closedAll := false
	steps := vpBound(5, 6)
	for s := 0; s < steps; s++ {
		f := nondetChoice(2)
		switch nondetChoice(6) {
		case 0:
			pool.retain(ptrs[f])
			if !closedAll {
				refs[f]++
			}
		case 1: // acquire needs a reference (reader protocol)
			vpAssume(refs[f] > 0 && len(out) < 3)
			h, err := pool.acquire(context.Background(), ptrs[f])
			if err == nil {
				r := h.(*vpReader)
				vpAssert(r.closed == 0, "C21: the pool lent a handle that is already closed")
				vpAssert(r.id == vpSrcBase+f, "C21: the pool lent a handle of another file")
				for _, o := range out {
					vpAssert(o.h != h, "C21: the pool lent one handle to two holders")
				}
				out = append(out, held{h, f})
			} else {
				vpAssert(!closedAll || err == errHandlePoolClosed, "C21: acquire on a closed pool did not refuse")
			}
		case 2: // put a held handle
			vpAssume(len(out) > 0)
			o := out[len(out)-1]
			out = out[:len(out)-1]
			pool.put(ptrs[o.file], o.h)
		case 3: // discard a held handle
			vpAssume(len(out) > 0)
			o := out[len(out)-1]
			out = out[:len(out)-1]
			pool.discard(o.h)
			vpAssert(o.h.(*vpReader).closed == 1, "C21: discard did not close the handle exactly once")
		case 4: // release needs no handle of that file checked out by this reader (protocol)
			vpAssume(refs[f] > 0)
			holding := 0
			for _, o := range out {
				if o.file == f {
					holding++
				}
			}
			vpAssume(refs[f] > holding)
			pool.release(ptrs[f])
			refs[f]--
		default:
			vpAssume(len(out) == 0 && !closedAll)
			pool.closeAll()
			closedAll = true
			refs[0], refs[1] = 0, 0
		}
		// no handle is closed more than once, and an idle handle is open
		for _, h := range store.handles {
			vpAssert(h.closed <= 1, "C21: a handle was closed twice")
		}
		if !closedAll {
			for _, e := range pool.files {
				for _, h := range e.idle {
					vpAssert(h.(*vpReader).closed == 0, "C21: a closed handle sits in the idle set")
					for _, o := range out {
						vpAssert(o.h != h, "C21: a checked-out handle is also idle")
					}
				}
			}
		}
	}
	// wind down as a query does: hand everything back, drop the references, closeAll
	for _, o := range out {
		if nondetBool() {
			pool.put(ptrs[o.file], o.h)
		} else {
			pool.discard(o.h)
		}
	}
	for f := range refs {
		for refs[f] > 0 {
			pool.release(ptrs[f])
			refs[f]--
		}
	}
	if !closedAll {
		pool.closeAll()
	}
	vpAssert(store.allClosedOnce(), "C21: after teardown a handle the query opened is not closed exactly once")
	_, err := pool.acquire(context.Background(), ptrs[0])
	vpAssert(err == errHandlePoolClosed, "C21: acquire after closeAll did not refuse")
}

// The block scan hands its handle back exactly once on every exit path.
//
//vp:override bs.readPooledBlockRowData=vpReadRowDataStub
//vp:override (*bs.compiledRowMatcher).matchRowBytes=vpMatchStub
//vp:override bs.materializeRow=vpMaterializeStub
//vp:bounds one block of 0..2 rows; open / read / materialize fail or succeed arbitrarily; matcher verdict arbitrary; cancellation at any context observation or never; the pool holds an idle handle of the file or not
func H_C21_block_scan_hands_its_handle_back() {
	w := vpNewWorld()
	w.openMaySucceed = true
	store := &vpTrackedStore{vpStore: vpStore{w}}
	ctx := &vpCancelCtx{may: nondetBool(), done: make(chan struct{})}
	r := &Results{ctx: ctx, callerCtx: ctx, rowChan: make(chan []map[string]any, queryRowBatchBuffer)}
	slot := &querySlot{sem: make(chan struct{}, 1), ctx: ctx}
	vpAssume(slot.acquire())
	pool := newFileHandlePool(store)
	ptr := vpSrcPointer(0)
	pool.retain(ptr) // the dispatcher's reference, released by runJob after the scan
	if nondetBool() { // a handle left idle by the filter pass
		h, err := store.OpenFile(context.Background(), ptr)
		vpAssume(err == nil)
		pool.put(ptr, h)
	}
	k := nondetChoice(3)
	vpScanData, vpScanMatched, vpScanSeen, vpScanBytes = nil, 0, 0, 0
	for i := 0; i < k; i++ {
		vpScanData = append(vpScanData, 2, 0, 0, 0, '{', '}')
	}
	vpReadFailed = false
	job := dataBlockJob{filePointer: ptr, blockMetadata: DataBlockMetadata{RowDataOffset: 700, RowDataSize: 50, Rows: k}}
	(&BloomSearchEngine{}).processDataBlock(r, slot, pool, job, &compiledRowMatcher{}, nil)
	idle := 0
	if e := pool.files[string(ptr)]; e != nil {
		idle = len(e.idle)
		for _, h := range e.idle {
			vpAssert(h.(*vpReader).closed == 0, "C21: the scan returned a closed handle to the pool")
		}
	}
	closed := 0
	for _, h := range store.handles {
		vpAssert(h.closed <= 1, "C21: the scan closed a handle twice")
		closed += h.closed
	}
	vpAssert(idle+closed == len(store.handles), "C21: a handle acquired for a block scan was neither returned to the pool nor closed")
	if vpReadFailed {
		vpAssert(closed >= 1, "C21: a handle whose read failed was returned to the pool instead of being closed")
	}
	pool.release(ptr)
	vpAssert(store.allClosedOnce(), "C21: after the file's last reference was dropped a handle is not closed exactly once")
}

// ---- the real Query, all goroutines ----

//vp:override (*bs.BloomSearchEngine).evaluateBloomFilters=vpQueryVerdictStub
//vp:override (*bs.blockFilterCursor).filtersFor=vpQueryFiltersFor
//vp:override (*bs.blockFilterCursor).release=vpCursorReleaseNop
//vp:override bs.readPooledBlockRowData=vpReadRowDataStub
//vp:override (*bs.compiledRowMatcher).matchRowBytes=vpMatchStub
//vp:override bs.materializeRow=vpMaterializeStub
//vp:bounds the real Query with all its goroutines and the real processDataBlock / evaluateBlockFilters / fileHandlePool, MaxQueryConcurrency 1 or 2, 1..2 files x 1..2 one-row blocks (not 2x2), verdicts arbitrary, OpenFile / row-data read / materialize fail or succeed arbitrarily, MetaStore iterator failing at its last position or not; the consumer drains, or cancels / closes after 0..1 rows; a canceller goroutine may be started; goroutines run to their next blocking point (no forced switches)
func H_C21_query_teardown_releases_everything() { vpQueryTeardownBody(false) }

//vp:override (*bs.BloomSearchEngine).evaluateBloomFilters=vpQueryVerdictStub
//vp:override (*bs.blockFilterCursor).filtersFor=vpQueryFiltersFor
//vp:override (*bs.blockFilterCursor).release=vpCursorReleaseNop
//vp:override bs.readPooledBlockRowData=vpReadRowDataStub
//vp:override (*bs.compiledRowMatcher).matchRowBytes=vpMatchStub
//vp:override bs.materializeRow=vpMaterializeStub
//vp:preempt 1
//vp:bounds the real Query with all its goroutines and the real processDataBlock / evaluateBlockFilters / fileHandlePool, MaxQueryConcurrency 1, 1 file x 1 one-row block, verdicts arbitrary, OpenFile / row-data read / materialize fail or succeed arbitrarily, MetaStore iterator failing at its last position or not; the consumer drains, or cancels / closes after 0..1 rows; a canceller goroutine may run at any point; at most 1 forced context switch in addition to switches at blocking points
func H_C21_query_teardown_with_forced_switches() { vpQueryTeardownBody(true) }

//vp:override (*bs.BloomSearchEngine).evaluateBloomFilters=vpQueryVerdictStub
//vp:override (*bs.blockFilterCursor).filtersFor=vpQueryFiltersFor
//vp:override (*bs.blockFilterCursor).release=vpCursorReleaseNop
//vp:override bs.readPooledBlockRowData=vpReadRowDataStub
//vp:override (*bs.compiledRowMatcher).matchRowBytes=vpMatchStub
//vp:override bs.materializeRow=vpMaterializeStub
//vp:preempt 2
//vp:thorough
//vp:maxpaths 2000000
//vp:bounds the real Query with all its goroutines and the real processDataBlock / evaluateBlockFilters / fileHandlePool, MaxQueryConcurrency 1, 1 file x 1 one-row block, verdicts arbitrary, OpenFile / row-data read / materialize fail or succeed arbitrarily, MetaStore iterator failing at its last position or not; the consumer drains, or cancels / closes after 0..1 rows; a canceller goroutine may run at any point; at most 2 forced context switches in addition to switches at blocking points
func H_C21_query_teardown_with_two_forced_switches() { vpQueryTeardownBody(true) }

var vpReadCloseMayFail bool // set by a harness before vpQueryTeardownBody: read handles may fail to close

func vpQueryTeardownBody(small bool) {
	w := vpNewWorld()
	w.openMaySucceed = true
	w.readCloseMayFail = vpReadCloseMayFail
	vpReadCloseMayFail = false
	w.iterFails = true
	store := &vpTrackedStore{vpStore: vpStore{w}}
	nFiles, nBlocks, conc := 1, 1, 1
	if !small {
		nFiles = 1 + nondetChoice(2)
		nBlocks = 1 + nondetChoice(2)
		vpAssume(nFiles+nBlocks <= 3)
		conc = 1 + nondetChoice(2)
	}
	vpQuerySetup(w, nFiles, nBlocks)
	b := vpQueryEngine(w, conc)
	b.dataStore = store
	vpScanData = []byte{2, 0, 0, 0, '{', '}'}
	caller := vpNewCtx(nil)
	r, err := b.Query(caller, NewQuery().Field("f").Build())
	vpAssert(err == nil && r != nil, "C20: Query failed on a valid query")
	mode := nondetChoice(3)
	if mode == 2 {
		go func() { caller.cancelWith(context.Canceled) }()
	}
	stopAfter := nondetChoice(2)
	got := 0
	for {
		if mode == 1 && got == stopAfter {
			vpAssert(r.Close() == nil, "C20: Close returned an error")
			break
		}
		if !r.Next() {
			break
		}
		got++
	}
	// Next returned false or Close returned: everything is released
	vpAssert(store.allClosedOnce(), "C21: a handle opened by the query is not closed exactly once once the query has ended")
	vpAssert(len(b.querySemaphore) == 0, "C21: query concurrency budget not fully available after the query ended")
	vpAssert(w.iterRunning == 0 && w.count(evIter, -1) == 1, "C21: the MetaStore iterator had not returned when the query ended")
	live := vpLiveGoroutines()
	if mode == 2 {
		vpAssert(live <= 1, "C21: a goroutine started for the query is still running after the query ended")
	} else {
		vpAssert(live == 0, "C21: a goroutine started for the query is still running after the query ended")
	}
}

// A query given a Context that is not one of the context package's own types makes
// context.WithCancel start a propagation goroutine; it must be gone once the query has completed
// cleanly (finish releases the query's internal context), without Close and without cancellation.
//
//vp:override (*bs.BloomSearchEngine).evaluateBloomFilters=vpQueryVerdictStub
//vp:override (*bs.blockFilterCursor).filtersFor=vpQueryFiltersFor
//vp:override (*bs.blockFilterCursor).release=vpCursorReleaseNop
//vp:override bs.readPooledBlockRowData=vpReadRowDataOK
//vp:override (*bs.compiledRowMatcher).matchRowBytes=vpMatchAll
//vp:override bs.materializeRow=vpMaterializeOK
//vp:maxsteps 400000
//vp:bounds the real Query (all goroutines) over 1 file x 1..2 blocks drained to clean completion, the caller's context a foreign Context implementation with a live Done channel; no faults
func H_C21_clean_completion_leaves_no_context_goroutine() {
	w := vpNewWorld()
	w.openAlways = true
	vpQuerySetupFixed(w, 1, 1+nondetChoice(2))
	b := vpQueryEngine(w, 1)
	vpScanData = []byte{2, 0, 0, 0, '{', '}'}
	foreign := &vpCancelCtx{may: false, done: make(chan struct{})}
	r, err := b.Query(foreign, NewQuery().Field("f").Build())
	vpAssert(err == nil, "C20: Query failed")
	n := 0
	for r.Next() {
		n++
		vpAssert(n <= 2, "C02: more rows than stored")
	}
	vpAssert(r.Err() == nil, "C20: a fault-free query ended with an error")
	vpQuiesce() // let whatever is still runnable run
	vpAssert(vpLiveGoroutines() == 0, "C21: a goroutine started for the query is still running after it completed (the query's internal context was not released)")
	vpAssert(len(b.querySemaphore) == 0, "C21: budget not restored")
}
