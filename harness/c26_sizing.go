package bloomsearch

// ---------------------------------------------------------------------------------------------
// C26 — bloom filters are sized for the exact number of entries they are filled with, at the
// configured false positive rate (the decided part: the sizing inputs; that bits-and-blooms meets
// the rate given exact inputs is the library's contract). The four construction sites (flush
// block/file, merge block/file) are checked on the file images of c17_files.go.
// ---------------------------------------------------------------------------------------------

//vp:nonative the counterexample's bit count is a value of the uninterpreted sizing function, which the native library does not take for a three-element set
//vp:bounds entry sets of 0..3 fields, 0..3 tokens, 0..2 field-tokens with distinct concrete keys; rate 0.01 or 0.001; sizing = the library's EstimateParameters as an uninterpreted function of (n, p)
func H_C26_filters_are_sized_for_their_exact_entry_count() {
	s := newBloomEntrySets()
	names := []string{"a", "b", "c"}
	nf, nt, nft := nondetChoice(4), nondetChoice(4), nondetChoice(3)
	for i := 0; i < nf; i++ {
		s.fields[names[i]] = struct{}{}
	}
	for i := 0; i < nt; i++ {
		s.tokens["t"+names[i]] = struct{}{}
	}
	for i := 0; i < nft; i++ {
		s.fieldTokens[names[i]+"::x"] = struct{}{}
	}
	rate := 0.01
	if nondetBool() {
		rate = 0.001
	}
	f := s.buildFilters(rate)
	one := func(n int) uint {
		if n < 1 {
			return 1
		}
		return uint(n)
	}
	vpAssert(f.FieldBloomFilter != nil && f.TokenBloomFilter != nil && f.FieldTokenBloomFilter != nil, "C26: a filter was not built")
	vpAssert(vpBloomMeetsEstimate(f.FieldBloomFilter, one(nf), rate), "C26: the field filter is not sized for its entry count at the configured rate")
	vpAssert(vpBloomMeetsEstimate(f.TokenBloomFilter, one(nt), rate), "C26: the token filter is not sized for its entry count at the configured rate")
	vpAssert(vpBloomMeetsEstimate(f.FieldTokenBloomFilter, one(nft), rate), "C26: the field-token filter is not sized for its entry count at the configured rate")
	for i := 0; i < nf; i++ {
		vpAssert(vpBloomAdded(f.FieldBloomFilter, names[i]), "C18/C26: an entry of the set is missing from the filter built from it")
	}
	for i := 0; i < nt; i++ {
		vpAssert(vpBloomAdded(f.TokenBloomFilter, "t"+names[i]), "C18/C26: an entry of the set is missing from the filter built from it")
	}
	for i := 0; i < nft; i++ {
		vpAssert(vpBloomAdded(f.FieldTokenBloomFilter, names[i]+"::x"), "C18/C26: an entry of the set is missing from the filter built from it")
	}
	c := s.counts()
	vpAssert(c.Fields == nf && c.Tokens == nt && c.FieldTokens == nft, "C17/C26: counts() does not report the sets' sizes")
}

// unionInto: the destination holds every entry of both sets afterwards (file-level sets cover
// their blocks), and the source is unchanged.
//
//vp:bounds two entry sets of 0..2 tokens / fields each, overlapping or not
func H_C18_union_covers_both_sets() {
	a, b := newBloomEntrySets(), newBloomEntrySets()
	keys := []string{"k0", "k1", "k2"}
	var ina, inb []bool
	for _, k := range keys {
		x, y := nondetBool(), nondetBool()
		ina, inb = append(ina, x), append(inb, y)
		if x {
			a.tokens[k] = struct{}{}
			a.fields[k] = struct{}{}
			a.fieldTokens[k] = struct{}{}
		}
		if y {
			b.tokens[k] = struct{}{}
			b.fields[k] = struct{}{}
		}
	}
	a.unionInto(b)
	for i, k := range keys {
		_, t := b.tokens[k]
		_, f := b.fields[k]
		_, ft := b.fieldTokens[k]
		vpAssert(t == (ina[i] || inb[i]) && f == (ina[i] || inb[i]) && ft == ina[i], "C18: unionInto lost or invented an entry")
		_, at := a.tokens[k]
		vpAssert(at == ina[i], "C18: unionInto changed its source set")
	}
}

// ---- C18: the file-level sets are the union of the block-level sets (unionInto) ----
//
// Entry sets as indexRow leaves them (a field is present iff some pair under it is, a token iff
// some pair with it is) over the universe {a,b} x {x,y}: after src.unionInto(dst) every entry of
// src and every earlier entry of dst is in dst, nothing else is, src is unchanged — in particular a
// block that brings no new field and no new token but a new PAIR still extends the file-level set.
//
//vp:bounds source and destination sets over fields {a,b}, tokens {x,y} and their 4 pairs, each pair present or absent in each (fields/tokens derived from the pairs)
func H_C18_file_level_sets_are_the_union_of_the_block_level_sets() {
	fields := []string{"a", "b"}
	tokens := []string{"x", "y"}
	mk := func() (*bloomEntrySets, [4]bool) {
		s := newBloomEntrySets()
		var has [4]bool
		for i, f := range fields {
			for j, t := range tokens {
				if nondetBool() {
					has[2*i+j] = true
					s.fields[f] = struct{}{}
					s.tokens[t] = struct{}{}
					s.fieldTokens[makeFieldTokenKey(f, t)] = struct{}{}
				}
			}
		}
		return s, has
	}
	src, hs := mk()
	dst, hd := mk()
	srcCounts := src.counts()
	src.unionInto(dst)
	for i, f := range fields {
		for j, t := range tokens {
			_, inDst := dst.fieldTokens[makeFieldTokenKey(f, t)]
			want := hs[2*i+j] || hd[2*i+j]
			if want {
				vpAssert(inDst, "C18: a field:token pair of a block is missing from the file-level set (the file-level filter will rule out a row the file holds)")
			} else {
				vpAssert(!inDst, "C26: the file-level set holds a pair no block has")
			}
		}
	}
	for i, f := range fields {
		_, in := dst.fields[f]
		vpAssert(in == (hs[2*i] || hs[2*i+1] || hd[2*i] || hd[2*i+1]), "C18: the file-level field set is not the union of the blocks' field sets")
	}
	for j, t := range tokens {
		_, in := dst.tokens[t]
		vpAssert(in == (hs[j] || hs[2+j] || hd[j] || hd[2+j]), "C18: the file-level token set is not the union of the blocks' token sets")
	}
	vpAssert(src.counts() == srcCounts, "C18: unionInto changed the block's own sets")
}
