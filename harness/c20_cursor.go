package bloomsearch

import (
	"context"
	"errors"
	"sync"
	"time"
)

// ---------------------------------------------------------------------------------------------
// C20 — the Results cursor always reaches a correct terminal state. The real Next / terminate /
// finish / Close / Err / joinedErrs / deliver / markWorkersDone / recordBlockError run as the
// consumer thread against an environment made of a pipeline goroutine (errors recorded, batches
// delivered through the real deliver, wind-down through the real markWorkersDone), an optional
// canceller goroutine and an optional closer goroutine. The executor's scheduler runs a thread to
// its next blocking point and, within the preemption bound, may switch threads before any
// channel / select / mutex operation; a goroutine parked in a select commits to the first case
// that becomes ready.
// ---------------------------------------------------------------------------------------------

// vpCtxNode: a cancellable context tree in harness Go (race-free natively). Cancelling a node
// cancels its descendants synchronously, which is what context.WithCancel does for children of a
// context created by the context package.
type vpCtxNode struct {
	mu       sync.Mutex
	done     chan struct{}
	err      error
	children []*vpCtxNode
}

func vpNewCtx(parent *vpCtxNode) *vpCtxNode {
	c := &vpCtxNode{done: make(chan struct{})}
	if parent != nil {
		parent.mu.Lock()
		if parent.err != nil {
			c.err = parent.err
			close(c.done)
		} else {
			parent.children = append(parent.children, c)
		}
		parent.mu.Unlock()
	}
	return c
}

func (c *vpCtxNode) cancelWith(err error) {
	c.mu.Lock()
	if c.err != nil {
		c.mu.Unlock()
		return
	}
	c.err = err
	close(c.done)
	kids := c.children
	c.children = nil
	c.mu.Unlock()
	for _, k := range kids {
		k.cancelWith(err)
	}
}

func (c *vpCtxNode) Done() <-chan struct{} { return c.done }
func (c *vpCtxNode) Err() error {
	c.mu.Lock()
	defer c.mu.Unlock()
	return c.err
}
func (c *vpCtxNode) Deadline() (time.Time, bool) { return time.Time{}, false }
func (c *vpCtxNode) Value(key any) any           { return nil }

type vpCursorWorld struct {
	r        *Results
	caller   *vpCtxNode
	inner    *vpCtxNode
	errs     []error
	nBatches int
	rowsPer  int
	// ghost state written by the pipeline thread
	sent              int  // rows handed to deliver successfully
	droppedForCaller  bool // rows were dropped because the caller's context was cancelled
	droppedForClose   bool
	pipelineDone      bool
	closeCalledBefore bool // a Close had begun before the caller's cancellation was observed by the pipeline
}

func vpNewCursorWorld() *vpCursorWorld {
	w := &vpCursorWorld{}
	w.caller = vpNewCtx(nil)
	w.inner = vpNewCtx(w.caller)
	inner := w.inner
	w.r = &Results{callerCtx: w.caller, ctx: w.inner, cancel: func() { inner.cancelWith(context.Canceled) },
		rowChan: make(chan []map[string]any, queryRowBatchBuffer), done: make(chan struct{}), start: time.Now()}
	return w
}

var (
	vpErrBlockA = errors.New("block A failed")
	vpErrBlockB = errors.New("block B failed")
)

// vpPipeline stands for the file stage and the block workers: it records nErr failures, delivers
// nBatches batches through the real deliver (checking the query context between batches, as the
// scan loop does), and winds down through the real markWorkersDone.
func vpPipeline(w *vpCursorWorld, nErr int, closing *bool) {
	r := w.r
	slot := &querySlot{sem: make(chan struct{}, 1), ctx: r.ctx}
	for i := 0; i < nErr; i++ {
		r.recordBlockError(w.errs[i])
	}
	for i := 0; i < w.nBatches; i++ {
		stop := r.ctx.Err() != nil
		if !stop {
			if !slot.acquire() {
				stop = true
			}
		}
		if !stop {
			batch := make([]map[string]any, w.rowsPer)
			for j := range batch {
				batch[j] = map[string]any{"n": i*10 + j}
			}
			if err := r.deliver(slot, batch); err != nil {
				stop = true
			} else {
				w.sent += w.rowsPer
			}
		}
		if stop {
			if w.caller.Err() != nil && !*closing {
				w.droppedForCaller = true
			} else {
				w.droppedForClose = true
			}
			break
		}
	}
	slot.release()
	w.pipelineDone = true
	r.markWorkersDone()
}

func vpDoneClosed(r *Results) bool {
	select {
	case <-r.done:
		return true
	default:
		return false
	}
}

// vpCheckTerminal: obligations once Next has returned false.
func vpCheckTerminal(w *vpCursorWorld, nErr int, got int, callerCancelledBeforeLastNext, closedBeforeCancel, closeInvolved bool) {
	r := w.r
	vpAssert(r.iterDone, "C20: Next returned false without ending iteration")
	vpAssert(vpDoneClosed(r) && w.pipelineDone, "C20: Next returned false before the query pipeline had wound down")
	err := r.Err()
	if err == nil {
		vpAssert(nErr == 0, "C20: Err is nil although a block or MetaStore failure was recorded")
		vpAssert(!w.droppedForCaller, "C20: Err is nil although the caller's cancellation made the query drop rows")
		if callerCancelledBeforeLastNext && !closedBeforeCancel {
			vpAssert(false, "C20: Err is nil although the query context was cancelled before the final Next")
		}
		if !closeInvolved {
			vpAssert(got == w.nBatches*w.rowsPer, "C20: clean completion did not deliver every matched row")
		}
	} else {
		if callerCancelledBeforeLastNext && !closedBeforeCancel {
			vpAssert(errors.Is(err, context.Canceled), "C20: Err of a cancelled query does not wrap the context error")
		}
		if !errors.Is(err, context.Canceled) {
			for i := 0; i < nErr; i++ {
				vpAssert(errors.Is(err, w.errs[i]), "C20: Err does not report every recorded failure")
			}
			vpAssert(nErr > 0, "C20: Err is non-nil although nothing failed and nothing was cancelled")
		}
	}
	// terminal state is sticky
	vpAssert(!r.Next() && r.Row() == nil, "C20: Next returned true after having returned false")
	vpAssert(r.Err() == err, "C20: Err changed after the terminal state was decided")
	vpAssert(r.Close() == nil, "C20: Close returned an error")
	vpAssert(r.Err() == err, "C20: Close changed an already decided terminal state")
	vpAssert(r.Close() == nil && r.Err() == err && !r.Next(), "C20: second Close is not a no-op")
}

// Sequential consumer: the caller cancels or closes between Next calls (or never); the pipeline
// runs whenever the consumer blocks.
//
//vp:bounds 0..2 batches of 1..2 rows, 0..2 recorded failures, caller cancellation or Close before any Next call or never; pipeline scheduled whenever the consumer blocks
func H_C20_cursor_terminal_state_sequential() {
	w := vpNewCursorWorld()
	nErr := nondetChoice(3)
	w.errs = []error{vpErrBlockA, vpErrBlockB}
	w.nBatches = nondetChoice(3)
	w.rowsPer = 1 + nondetChoice(2)
	cancelAt := nondetChoice(6) // 5: never
	closeAt := nondetChoice(6)
	closing := false
	go vpPipeline(w, nErr, &closing)
	got := 0
	cancelled, closed, closedFirst := false, false, false
	for step := 0; step < 5; step++ {
		if step == closeAt {
			closing = true
			vpAssert(w.r.Close() == nil, "C20: Close returned an error")
			closed = true
			if !cancelled {
				closedFirst = true
			}
			vpAssert(vpDoneClosed(w.r), "C20: Close returned before the pipeline had wound down")
		}
		if step == cancelAt {
			w.caller.cancelWith(context.Canceled)
			cancelled = true
		}
		if !w.r.Next() {
			vpCheckTerminal(w, nErr, got, cancelled, closedFirst, closed)
			return
		}
		vpAssert(w.r.Row() != nil, "C20: Next returned true without a row")
		got++
		vpAssert(got <= w.nBatches*w.rowsPer, "C20: Next returned more rows than were matched")
	}
}

// Concurrent cancellation: a canceller goroutine cancels the caller's context at any scheduling
// point (including between the two selects of Next), the pipeline observes it and winds down.
//
//vp:preempt 2
//vp:bounds 0..2 batches of 1 row, 0..1 recorded failure, a canceller goroutine (present or not); at most 2 forced context switches at channel/select/mutex operations in addition to switches at blocking points
func H_C20_cursor_terminal_state_concurrent_cancel() { vpCursorConcurrentCancel() }

//vp:preempt 3
//vp:thorough
//vp:maxpaths 2000000
//vp:bounds 0..2 batches of 1 row, 0..1 recorded failure, a canceller goroutine (present or not); at most 3 forced context switches at channel/select/mutex operations in addition to switches at blocking points
func H_C20_cursor_terminal_state_three_forced_switches() { vpCursorConcurrentCancel() }

func vpCursorConcurrentCancel() {
	w := vpNewCursorWorld()
	nErr := nondetChoice(2)
	w.errs = []error{vpErrBlockA, vpErrBlockB}
	w.nBatches = nondetChoice(3)
	w.rowsPer = 1
	closing := false
	go vpPipeline(w, nErr, &closing)
	if nondetBool() {
		go func() { w.caller.cancelWith(context.Canceled) }()
	}
	got := 0
	for step := 0; step < 5; step++ {
		if !w.r.Next() {
			vpCheckTerminal(w, nErr, got, false, false, false)
			return
		}
		got++
		vpAssert(got <= w.nBatches*w.rowsPer, "C20: Next returned more rows than were matched")
	}
}

// Concurrent Close: a closer goroutine calls Close at any scheduling point while the consumer is
// in Next. Close must return nil, wait for the wind-down, never deadlock with Next, and leave a
// terminal state that Next's own finalisation does not contradict.
//
//vp:preempt 2
//vp:bounds 0..2 batches of 1 row, 0..1 recorded failure, a closer goroutine; at most 2 forced context switches
func H_C20_close_concurrent_with_next() {
	w := vpNewCursorWorld()
	nErr := nondetChoice(2)
	w.errs = []error{vpErrBlockA, vpErrBlockB}
	w.nBatches = nondetChoice(3)
	w.rowsPer = 1
	closing := false
	closeReturned := make(chan error, 1)
	go vpPipeline(w, nErr, &closing)
	go func() {
		closing = true
		closeReturned <- w.r.Close()
	}()
	got := 0
	for step := 0; step < 5; step++ {
		if !w.r.Next() {
			vpAssert(<-closeReturned == nil, "C20: concurrent Close returned an error")
			vpCheckTerminal(w, nErr, got, false, true, true)
			return
		}
		got++
		vpAssert(got <= w.nBatches*w.rowsPer, "C20: Next returned more rows than were matched")
	}
}

// ---- context package models (harness Go, used by the executor in place of the library code) ----

// context.WithCancel: a child of a harness context tree is cancelled synchronously with its
// parent (what the context package does for its own context types); under any other parent with a
// Done channel a propagation goroutine is started (what the context package does for foreign
// Context implementations); Background/TODO parents never cancel.
func vpModel_context_WithCancel(parent context.Context) (context.Context, context.CancelFunc) {
	var c *vpCtxNode
	if p, ok := parent.(*vpCtxNode); ok {
		c = vpNewCtx(p)
	} else {
		c = vpNewCtx(nil)
		if pd := parent.Done(); pd != nil {
			go func() {
				select {
				case <-pd:
					c.cancelWith(parent.Err())
				case <-c.done:
				}
			}()
		}
	}
	return c, func() { c.cancelWith(context.Canceled) }
}

// context.AfterFunc: f runs in its own goroutine some time after ctx is done (for a context that
// implements AfterFunc itself, that implementation decides when — possibly late).
func vpModel_context_AfterFunc(ctx context.Context, f func()) func() bool {
	if a, ok := ctx.(interface{ AfterFunc(func()) func() bool }); ok {
		return a.AfterFunc(f)
	}
	stopped := make(chan struct{})
	var once sync.Once
	go func() {
		select {
		case <-ctx.Done():
			ran := false
			once.Do(func() { ran = true })
			if ran {
				f()
			}
		case <-stopped:
		}
	}()
	return func() bool {
		did := false
		once.Do(func() { did = true; close(stopped) })
		return did
	}
}
