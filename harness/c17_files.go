package bloomsearch

import (
	"context"
	"io"
)

// ---------------------------------------------------------------------------------------------
// C17 — every written file describes itself truthfully; C18 — indexes cover their data;
// C11 — merging preserves stored content; C26 — filters are sized from the sets they are filled
// from at the configured rate. All four are decided on file images produced by the real write and
// merge paths and read back by the real read path (see img_world.go).
// ---------------------------------------------------------------------------------------------

// vpNondetRowsLite: partition p/q and presence of the minmax key arbitrary, values fixed by position.
func vpNondetRowsLite(n int, prefix string) []vpRowSpec {
	rows := make([]vpRowSpec, n)
	for i := range rows {
		r := vpRowSpec{id: prefix + string(rune('0'+i)), part: "p"}
		if nondetBool() {
			r.part = "q"
		}
		if nondetBool() {
			r.hasV = true
			r.v = 7*i - 3
			if prefix == "b" {
				r.v = 40 - 50*i
			}
		}
		rows[i] = r
	}
	return rows
}

func vpNondetRows(n int, prefix string) []vpRowSpec {
	rows := make([]vpRowSpec, n)
	for i := range rows {
		r := vpRowSpec{id: prefix + string(rune('0'+i)), part: "p"}
		if nondetBool() {
			r.part = "q"
		}
		r.uKind = 2 // the first configured minmax key "u": a number; for the first row also absent or non-numeric
		if i == 0 {
			r.uKind = nondetChoice(3)
		}
		r.uVal = 100 + i
		if nondetBool() {
			r.hasV = true
			switch nondetChoice(3) {
			case 0:
				r.v = -3
			case 1:
				r.v = 0
			default:
				r.v = 12
			}
		}
		rows[i] = r
	}
	return rows
}

// vpCheckBlocksAgainstRows: every block holds exactly the rows of its partition (and, after a
// merge, of its minmax key set) among want, each row sits in exactly one block, the block's minmax
// index covers its rows' values and exists only if some row has one, and the entry sets the
// filters were built from cover the block's rows (block level) and all rows (file level).
func vpCheckBlocksAgainstRows(iw *vpImgWorld, id int, want []vpRowSpec, builds []vpBuildCall, sourceBlocks [][]string) {
	md := iw.metadataOf(id)
	var all []string
	bi := 0 // next build call
	for i := range md.DataBlocks {
		blk := &md.DataBlocks[i]
		got := iw.readBlockRows(id, blk)
		all = append(all, got...)
		anyV, anyU := false, false
		for _, text := range got {
			found := false
			for _, r := range want {
				if r.text() == text {
					found = true
					vpAssert(r.part == blk.PartitionID, "C18: a block holds a row of another partition")
					if r.hasV {
						anyV = true
						idx, ok := blk.MinMaxIndexes["v"]
						vpAssert(ok && idx.Min <= int64(r.v) && int64(r.v) <= idx.Max, "C04/C18: a block's minmax index does not cover a value one of its rows holds")
					}
					if r.uKind == 2 {
						anyU = true
						idx, ok := blk.MinMaxIndexes["u"]
						vpAssert(ok && idx.Min <= int64(r.uVal) && int64(r.uVal) <= idx.Max, "C04/C18: a block's minmax index does not cover a value one of its rows holds")
					}
				}
			}
			vpAssert(found, "C11/C17: a block holds a row that was never ingested")
		}
		_, hasIdx := blk.MinMaxIndexes["v"]
		vpAssert(hasIdx == anyV, "C18: a block carries a minmax index for a key none of its rows supplied (or lacks one)")
		_, hasU := blk.MinMaxIndexes["u"]
		vpAssert(hasU == anyU, "C18: a block carries a minmax index for a key none of its rows supplied with a number (or lacks one)")
		// a block copied verbatim by a merge keeps its source's filters: nothing is built for it
		copied := false
		for _, src := range sourceBlocks {
			if len(src) == len(got) && vpSameMultiset(src, got) {
				copied = true
			}
		}
		if copied && (bi >= len(builds)-1 || !vpSameSet(builds[bi].rows, got)) {
			continue
		}
		// C18/C26: the block's filters were built from a set holding exactly the block's rows
		vpAssert(bi < len(builds)-1, "C26: no filters were built for a rebuilt block")
		vpAssert(vpSameSet(builds[bi].rows, got), "C18: the entry set a block's filters were built from does not hold exactly the block's rows")
		vpAssert(builds[bi].rate == iw.b.config.BloomFalsePositiveRate, "C26: block filters were not built at the configured false positive rate")
		vpAssert(blk.BloomEntryCounts.Tokens == len(builds[bi].rows) && blk.BloomFalsePositiveRate == iw.b.config.BloomFalsePositiveRate, "C17: the block's recorded entry counts / rate differ from what its filters were built from")
		bi++
	}
	vpAssert(bi == len(builds)-1, "C26: filters were built for something that is not a block of the file")
	var wantTexts []string
	for _, r := range want {
		wantTexts = append(wantTexts, r.text())
	}
	vpAssert(vpSameMultiset(all, wantTexts), "C11/C17: the file's blocks do not hold exactly the ingested rows, each once")
	vpAssert(len(builds) >= 1, "C26: no file-level filters were built")
	fileBuild := builds[len(builds)-1]
	vpAssert(vpSameSet(fileBuild.rows, all), "C18: the file-level entry set does not hold exactly the rows of all its blocks")
	vpAssert(fileBuild.rate == iw.b.config.BloomFalsePositiveRate && md.BloomFalsePositiveRate == iw.b.config.BloomFalsePositiveRate, "C26: file filters were not built at the configured false positive rate")
	vpAssert(md.BloomEntryCounts.Tokens == len(fileBuild.rows), "C17: the file's recorded entry counts differ from what its filters were built from")
}

// vpSameSet: a (sorted, duplicate-free) holds exactly the distinct elements of b.
func vpSameSet(a, b []string) bool {
	for _, x := range b {
		in := false
		for _, y := range a {
			if x == y {
				in = true
			}
		}
		if !in {
			return false
		}
	}
	for _, y := range a {
		in := false
		for _, x := range b {
			if x == y {
				in = true
			}
		}
		if !in {
			return false
		}
	}
	return true
}

//vp:override (*bs.bloomEntrySets).indexRow=vpIndexRowRec
//vp:override (*bs.bloomEntrySets).buildFilters=vpBuildFiltersRec
//vp:override bs.encodeFilterSection=vpEncodeSectionVar
//vp:override bs.parseFilterSection=vpParseSectionOK
//vp:bounds one batch of 1..3 rows, each in partition p or q, each with or without the minmax key (values -3, 0, 12); filter sections of 3 or 4 bytes with arbitrary content, or no filter sections at all (size 0 throughout); CompressionNone
func H_C17_flushed_file_describes_itself() { vpFlushedFileBody() }

func vpFlushedFileBody() {
	iw := vpNewImgWorld()
	vpNoFilterSections = nondetBool() // a writer that stores no filter sections at all (size 0 everywhere) is within the format
	rows := vpNondetRows(1+nondetChoice(vpBound(2, 3)), "r")
	id := iw.flushRows(rows)
	iw.checkFileDescribesItself(id)
	vpCheckBlocksAgainstRows(iw, id, rows, vpBuildCalls, nil)
	vpAssert(len(vpBuildCalls) == len(iw.metadataOf(id).DataBlocks)+1, "C26: filters were not built exactly once per block and once for the file")
	// every row was indexed exactly once, into the set of the block that holds it
	vpAssert(len(vpIndexCalls) == len(rows), "C18: rows were not indexed exactly once each at ingest")
}

//vp:override (*bs.bloomEntrySets).indexRow=vpIndexRowRec
//vp:override (*bs.bloomEntrySets).buildFilters=vpBuildFiltersRec
//vp:override bs.encodeFilterSection=vpEncodeSectionStub
//vp:override bs.parseFilterSection=vpParseSectionOK
//vp:maxsteps 400000
//vp:bounds two flushed files of 1..2 and 1 (thorough 1..2) rows (partitions p/q, minmax key present or not, so blocks merge, or are copied because partition or key set differ or the row-group row limit (1000 or 2) forbids it), then the real Merge, with the engine's configuration unchanged or changed in between (false positive rate 0.01 -> 0.001 and row-data compression none -> snappy, the codec being a stand-in that prefixes one marker byte)
//vp:override (*bs.BloomSearchEngine).createCompressionWriter=vpCreateCompressionWriterTagged
//vp:override bs.decodeBlockRowDataInto=vpDecodeTagged
func H_C11_merge_preserves_rows_and_describes_its_output() { vpMergedFileBody() }

func vpMergedFileBody() {
	iw := vpNewImgWorld()
	ra := vpNondetRowsLite(1+nondetChoice(2), "a")
	rb := vpNondetRowsLite(1+nondetChoice(vpBound(1, 2)), "b")
	ida := iw.flushRows(ra)
	idb := iw.flushRows(rb)
	if nondetBool() {
		iw.b.config.MaxRowGroupRows = 2
	}
	if nondetBool() {
		// the engine was reconfigured between the flushes and the merge: rebuilt filters use the
		// rate configured now, whatever the source blocks recorded
		iw.b.config.BloomFalsePositiveRate = 0.001
		// ... and re-encoded blocks use the codec configured now (a stand-in codec, see
		// vpCreateCompressionWriterTagged), while blocks copied verbatim keep their own tag
		iw.b.config.RowDataCompression = CompressionSnappy
	}
	var sourceBlocks [][]string
	for _, id := range []int{ida, idb} {
		md := iw.metadataOf(id)
		for i := range md.DataBlocks {
			sourceBlocks = append(sourceBlocks, iw.readBlockRows(id, &md.DataBlocks[i]))
		}
	}
	before := iw.meta.updates
	vpBuildCalls = nil
	vpIndexCalls = nil
	stats, err := iw.b.Merge(context.Background())
	vpAssert(err == nil && stats != nil, "C13: a fault-free merge failed")
	all := append(append([]vpRowSpec(nil), ra...), rb...)
	if iw.meta.updates == before {
		// nothing merged: both files untouched
		vpAssert(len(iw.meta.files) == 2 && iw.store.files[ida] != nil && iw.store.files[idb] != nil, "C13: a merge that committed nothing changed the store")
		return
	}
	vpAssert(len(iw.meta.files) == 1, "C11: after merging the two files the MetaStore does not reference exactly the merged file")
	out := vpFileID(iw.meta.files[0].PointerBytes)
	vpAssert(out != ida && out != idb, "C13: the merge output reuses a source pointer")
	_, aThere := iw.store.files[ida]
	_, bThere := iw.store.files[idb]
	vpAssert(!aThere && !bThere, "C13: merged sources were not tombstoned")
	iw.checkFileDescribesItself(out)
	vpCheckBlocksAgainstRows(iw, out, all, vpBuildCalls, sourceBlocks)
	// every output block is within the row-group limit unless it is a single source block
	for i := range iw.meta.files[0].Metadata.DataBlocks {
		blk := &iw.meta.files[0].Metadata.DataBlocks[i]
		vpAssert(blk.Rows <= iw.b.config.MaxRowGroupRows || blk.Rows <= 2, "C12: a merged block exceeds MaxRowGroupRows")
	}
	vpAssert(stats.FilesProcessed == 2 && stats.RowsProcessed == int64(len(all)), "C11: merge statistics do not count the merged files / rows")
}

//vp:override (*bs.bloomEntrySets).indexRow=vpIndexRowRec
//vp:override (*bs.bloomEntrySets).buildFilters=vpBuildFiltersRec
//vp:override bs.encodeFilterSection=vpEncodeSectionVar
//vp:override bs.parseFilterSection=vpParseSectionOK
//vp:maxsteps 400000
//vp:bounds one batch of 1..3 rows, each in partition p or q, each with or without the minmax key (values -3, 0, 12); filter sections of 3 or 4 bytes with arbitrary content, or no filter sections at all (size 0 throughout); CompressionNone
func H_C18_flush_indexes_cover_the_rows_written() { vpFlushedFileBody() }

//vp:override (*bs.bloomEntrySets).indexRow=vpIndexRowRec
//vp:override (*bs.bloomEntrySets).buildFilters=vpBuildFiltersRec
//vp:override bs.encodeFilterSection=vpEncodeSectionStub
//vp:override bs.parseFilterSection=vpParseSectionOK
//vp:maxsteps 400000
//vp:bounds two flushed files of 1..2 and 1 (thorough 1..2) rows (partitions p/q, minmax key present or not, so blocks merge, or are copied because partition or key set differ or the row-group row limit (1000 or 2) forbids it), then the real Merge, with the engine's configuration unchanged or changed in between (false positive rate 0.01 -> 0.001 and row-data compression none -> snappy, the codec being a stand-in that prefixes one marker byte)
//vp:override (*bs.BloomSearchEngine).createCompressionWriter=vpCreateCompressionWriterTagged
//vp:override bs.decodeBlockRowDataInto=vpDecodeTagged
func H_C18_merge_indexes_cover_the_rows_written() { vpMergedFileBody() }

//vp:override (*bs.bloomEntrySets).indexRow=vpIndexRowRec
//vp:override (*bs.bloomEntrySets).buildFilters=vpBuildFiltersRec
//vp:override bs.encodeFilterSection=vpEncodeSectionVar
//vp:override bs.parseFilterSection=vpParseSectionOK
//vp:maxsteps 400000
//vp:bounds one batch of 1..3 rows, each in partition p or q, each with or without the minmax key (values -3, 0, 12); filter sections of 3 or 4 bytes with arbitrary content, or no filter sections at all (size 0 throughout); CompressionNone
func H_C26_flush_builds_filters_from_the_sets_it_fills() { vpFlushedFileBody() }

//vp:override (*bs.bloomEntrySets).indexRow=vpIndexRowRec
//vp:override (*bs.bloomEntrySets).buildFilters=vpBuildFiltersRec
//vp:override bs.encodeFilterSection=vpEncodeSectionStub
//vp:override bs.parseFilterSection=vpParseSectionOK
//vp:maxsteps 400000
//vp:bounds two flushed files of 1..2 and 1 (thorough 1..2) rows (partitions p/q, minmax key present or not, so blocks merge, or are copied because partition or key set differ or the row-group row limit (1000 or 2) forbids it), then the real Merge, with the engine's configuration unchanged or changed in between (false positive rate 0.01 -> 0.001 and row-data compression none -> snappy, the codec being a stand-in that prefixes one marker byte)
//vp:override (*bs.BloomSearchEngine).createCompressionWriter=vpCreateCompressionWriterTagged
//vp:override bs.decodeBlockRowDataInto=vpDecodeTagged
func H_C26_merge_builds_filters_from_the_sets_it_fills() { vpMergedFileBody() }

//vp:override (*bs.bloomEntrySets).indexRow=vpIndexRowRec
//vp:override (*bs.bloomEntrySets).buildFilters=vpBuildFiltersRec
//vp:override bs.encodeFilterSection=vpEncodeSectionStub
//vp:override bs.parseFilterSection=vpParseSectionOK
//vp:maxsteps 400000
//vp:bounds two flushed files of 1..2 and 1 (thorough 1..2) rows (partitions p/q, minmax key present or not, so blocks merge, or are copied because partition or key set differ or the row-group row limit (1000 or 2) forbids it), then the real Merge, with the engine's configuration unchanged or changed in between (false positive rate 0.01 -> 0.001 and row-data compression none -> snappy, the codec being a stand-in that prefixes one marker byte)
//vp:override (*bs.BloomSearchEngine).createCompressionWriter=vpCreateCompressionWriterTagged
//vp:override bs.decodeBlockRowDataInto=vpDecodeTagged
func H_C17_merged_file_describes_itself() { vpMergedFileBody() }

// The block grouping inside one partition is a partition of the source blocks: nothing dropped,
// nothing written twice (symbolic row counts, sizes and limits; shared with C12).
//
//vp:override (*bs.BloomSearchEngine).copyDataBlock=vpCopyRec
//vp:override (*bs.BloomSearchEngine).mergeDataBlocks=vpMergeRec
//vp:bounds 3 blocks (4 in thorough) of one partition, symbolic rows/sizes in [0,2^40), symbolic limits in (0,2^40), 4 key sets per block
func H_C11_block_grouping_writes_every_source_block_once() { H_C12_block_grouping_respects_limits() }

// A flush that runs while a merge is between two of its output blocks: both files must still
// describe themselves (the flush worker and Merge run concurrently in the engine; nothing they
// write through may be shared between them).
type vpGatedWriter struct {
	vpImgWriter
	writes int
	gate   chan struct{}
	parked chan struct{}
}

func (f *vpGatedWriter) Write(p []byte) (int, error) {
	f.writes++
	if f.writes == 2 && f.gate != nil {
		close(f.parked)
		<-f.gate
	}
	return f.vpImgWriter.Write(p)
}

type vpGatedStore struct {
	vpImgStore
	gateNext bool
	gate     chan struct{}
	parked   chan struct{}
}

func (s *vpGatedStore) CreateFile(ctx context.Context) (io.WriteCloser, []byte, error) {
	id := s.nCreated
	s.nCreated++
	w := &vpGatedWriter{vpImgWriter: vpImgWriter{s: &s.vpImgStore, id: id}}
	if s.gateNext {
		s.gateNext = false
		w.gate, w.parked = s.gate, s.parked
	}
	return w, vpPointer(id), nil
}

//vp:override (*bs.bloomEntrySets).indexRow=vpIndexRowRec
//vp:override (*bs.bloomEntrySets).buildFilters=vpBuildFiltersRec
//vp:override bs.encodeFilterSection=vpEncodeSectionConst
//vp:override bs.parseFilterSection=vpParseSectionOK
//vp:maxsteps 900000
//vp:bounds two flushed two-partition files, the real Merge in a goroutine parked inside the second Write of its output (between two output blocks), a third flush running to completion meanwhile, then the merge released; all files read back
func H_C17_flush_during_a_merge_keeps_both_files_truthful() {
	iw := vpNewImgWorld()
	gs := &vpGatedStore{vpImgStore: *iw.store, gate: make(chan struct{}), parked: make(chan struct{})}
	iw.b.dataStore = gs
	iw.store = &gs.vpImgStore
	ra := []vpRowSpec{{id: "a0", part: "p"}, {id: "a1", part: "q"}}
	rb := []vpRowSpec{{id: "b0", part: "p"}, {id: "b1", part: "q"}}
	rc := []vpRowSpec{{id: "c0", part: "p"}, {id: "c1", part: "q"}}
	iw.flushRows(ra)
	iw.flushRows(rb)
	gs.gateNext = true // the merge's output writer parks in its second Write
	mergeErr := make(chan error, 1)
	go func() {
		_, err := iw.b.Merge(context.Background())
		mergeErr <- err
	}()
	<-gs.parked
	vpBuildCalls, vpIndexCalls = nil, nil
	idc := iw.flushRows(rc) // a complete flush while the merge is between two of its blocks
	close(gs.gate)
	vpAssert(<-mergeErr == nil, "C13: a fault-free merge failed")
	iw.checkFileDescribesItself(idc)
	for i := range iw.meta.files {
		id := vpFileID(iw.meta.files[i].PointerBytes)
		iw.checkFileDescribesItself(id)
		md := &iw.meta.files[i].Metadata
		for j := range md.DataBlocks {
			iw.readBlockRows(id, &md.DataBlocks[j])
		}
	}
	vpAssert(len(iw.meta.files) == 2, "C13: after the merge and the concurrent flush the MetaStore does not reference the merged file and the new file")
}
