package bloomsearch

import (
	"context"
)

// ---------------------------------------------------------------------------------------------
// C22 — query I/O stays within MaxQueryConcurrency; stalled queries starve no one.
//   (1) querySlot: from any slot / semaphore state, acquire and release keep "held <=> this slot
//       owns exactly one token"; release of an unheld slot never takes somebody else's token;
//       acquire on a full semaphore blocks while the query is live and gives up (without a token)
//       once it is cancelled;
//   (2) discipline: every OpenFile / filter-section read / row-data read made by the real filter
//       pass and the real block scan happens with the worker's slot held;
//   (3) deliver parks on a full cursor buffer only after releasing its slot (full and short
//       batches alike) and resumes the scan only with the slot re-acquired;
//   (4) the real Query pipeline whose consumer never reads parks all its workers without holding
//       any token, and a second query on the same engine then runs to completion.
// Tokens in flight never exceed cap(querySemaphore) by channel semantics; the constructor
// post-condition cap(querySemaphore) == MaxQueryConcurrency is obligation (5).
// ---------------------------------------------------------------------------------------------

//vp:bounds semaphore capacity 1..2, 0..cap tokens held by other workers, slot held or not, query context live / cancellable at any observation; one acquire or release
func H_C22_slot_step_keeps_token_accounting() {
	capN := 1 + nondetChoice(2)
	sem := make(chan struct{}, capN)
	others := nondetChoice(capN + 1)
	for i := 0; i < others; i++ {
		sem <- struct{}{}
	}
	ctx := &vpCancelCtx{may: nondetBool(), done: make(chan struct{})}
	s := &querySlot{sem: sem, ctx: ctx}
	if others < capN && nondetBool() {
		sem <- struct{}{}
		s.held = true
	}
	heldBefore := s.held
	tokens := len(sem)
	if nondetBool() {
		if !heldBefore && tokens == capN {
			vpBlockedOK() // a full semaphore and a live query: acquire must wait
		}
		ok := s.acquire()
		if ok {
			vpAssert(s.held, "C22: acquire reported success without marking the slot held")
			if heldBefore {
				vpAssert(len(sem) == tokens, "C22: acquiring an already held slot took a second token")
			} else {
				vpAssert(len(sem) == tokens+1 && tokens < capN, "C22: acquire succeeded without taking exactly one free token")
			}
		} else {
			vpAssert(!s.held && len(sem) == tokens, "C22: a failed acquire left the slot held or took a token")
			vpAssert(ctx.canceled && !heldBefore, "C22: acquire gave up although the query is live")
		}
		return
	}
	s.release()
	vpAssert(!s.held, "C22: release left the slot marked held")
	if heldBefore {
		vpAssert(len(sem) == tokens-1, "C22: release of a held slot did not return exactly one token")
	} else {
		vpAssert(len(sem) == tokens, "C22: release of an unheld slot took another worker's token")
	}
}

//vp:override (*bs.blockFilterCursor).filtersFor=vpFiltersForStub
//vp:override (*bs.BloomSearchEngine).evaluateBloomFilters=vpSurvivesStub
//vp:override (*bs.blockFilterCursor).release=vpCursorReleaseNop
//vp:bounds filter pass over 1..2 blocks with bloom conditions, worker slot initially held or not, semaphore capacity 1 with the token free; open / section reads / verdicts arbitrary; cancellation at any observation or never
func H_C22_filter_pass_io_happens_under_the_slot() {
	n := 1 + nondetChoice(2)
	w := vpNewWorld()
	w.openMaySucceed = true
	ctx := &vpCancelCtx{may: nondetBool(), done: make(chan struct{})}
	r := &Results{ctx: ctx, callerCtx: ctx}
	slot := &querySlot{sem: make(chan struct{}, 1), ctx: ctx}
	if nondetBool() {
		vpAssume(slot.acquire())
	}
	pool := newFileHandlePool(&vpStore{w})
	ptr := vpPointer(0)
	pool.retain(ptr)
	blocks := make([]DataBlockMetadata, n)
	for i := range blocks {
		blocks[i] = DataBlockMetadata{RowDataOffset: 100 * i, RowDataSize: 100, BloomFilterOffset: 1000 + 10*i, BloomFilterSize: 10}
	}
	job := fileFilterJob{filePointer: ptr, filterRegionOffset: 1000, filterRegionSize: 100, blocks: blocks}
	vpFilterReads = nil
	vpIOSlot = slot
	(&BloomSearchEngine{}).evaluateBlockFilters(r, slot, pool, job, blocks, &BloomQuery{Expression: &BloomExpression{}}, nil)
	vpIOSlot = nil
	vpAssert(len(slot.sem) <= 1 && (len(slot.sem) == 1) == slot.held, "C22: after the filter pass the slot's held flag and its token disagree")
}

//vp:override bs.readPooledBlockRowData=vpReadRowDataStub
//vp:override (*bs.compiledRowMatcher).matchRowBytes=vpMatchStub
//vp:override bs.materializeRow=vpMaterializeStub
//vp:bounds block scan of 0..2 rows with the slot held on entry; open / read / materialize / verdicts arbitrary; cancellation at any observation or never
func H_C22_block_scan_io_happens_under_the_slot() {
	w := vpNewWorld()
	w.openMaySucceed = true
	ctx := &vpCancelCtx{may: nondetBool(), done: make(chan struct{})}
	r := &Results{ctx: ctx, callerCtx: ctx, rowChan: make(chan []map[string]any, queryRowBatchBuffer)}
	slot := &querySlot{sem: make(chan struct{}, 1), ctx: ctx}
	vpAssume(slot.acquire())
	pool := newFileHandlePool(&vpStore{w})
	ptr := vpPointer(0)
	pool.retain(ptr)
	k := nondetChoice(3)
	vpScanData, vpScanMatched, vpScanSeen, vpScanBytes = nil, 0, 0, 0
	for i := 0; i < k; i++ {
		vpScanData = append(vpScanData, 2, 0, 0, 0, '{', '}')
	}
	job := dataBlockJob{filePointer: ptr, blockMetadata: DataBlockMetadata{RowDataOffset: 700, RowDataSize: 50, Rows: k}}
	vpIOSlot = slot
	(&BloomSearchEngine{}).processDataBlock(r, slot, pool, job, &compiledRowMatcher{}, nil)
	vpIOSlot = nil
	vpAssert((len(slot.sem) == 1) == slot.held, "C22: after the scan the slot's held flag and its token disagree")
}

// deliver on a full cursor buffer: the worker parks without its token, whatever the batch length,
// and comes back holding it (or reports the query's termination).
//
//vp:bounds cursor buffer full (4 batches), batch of 1 or 64 rows, semaphore capacity 1; a consumer goroutine observes the parked worker, then frees one buffer place or cancels the query
func H_C22_deliver_parks_without_its_slot() {
	caller := vpNewCtx(nil)
	inner := vpNewCtx(caller)
	r := &Results{callerCtx: caller, ctx: inner, cancel: func() { inner.cancelWith(context.Canceled) },
		rowChan: make(chan []map[string]any, queryRowBatchBuffer), done: make(chan struct{})}
	sem := make(chan struct{}, 1)
	slot := &querySlot{sem: sem, ctx: inner}
	vpAssume(slot.acquire())
	for i := 0; i < queryRowBatchBuffer; i++ {
		r.rowChan <- []map[string]any{{}}
	}
	n := 1
	if nondetBool() {
		n = queryRowBatchSize
	}
	batch := make([]map[string]any, n)
	cancelInstead := nondetBool()
	var derr error
	returned := make(chan struct{})
	go func() {
		derr = r.deliver(slot, batch)
		close(returned)
	}()
	vpQuiesce() // the worker is now parked inside deliver
	early := false
	select {
	case <-returned:
		early = true
	default:
	}
	vpAssert(!early, "C22: deliver returned although the cursor buffer is full and nobody consumed")
	vpAssert(len(sem) == 0 && !slot.held, "C22: a worker blocked on a stalled consumer still holds its query slot")
	if cancelInstead {
		inner.cancelWith(context.Canceled)
		<-returned
		vpAssert(derr != nil, "C20/C22: deliver reported success although the query was terminated before the batch was accepted")
		vpAssert(!slot.held && len(sem) == 0, "C22: a worker whose delivery was abandoned holds a slot")
		return
	}
	<-r.rowChan
	<-returned
	vpAssert(derr == nil && slot.held && len(sem) == 1, "C22: deliver resumed the scan without re-acquiring its slot")
	vpAssert(r.rowsMatched.Load() == int64(n), "C23: RowsMatched does not count the delivered batch")
}

//vp:override (*bs.BloomSearchEngine).evaluateBloomFilters=vpQueryVerdictStub
//vp:override (*bs.blockFilterCursor).filtersFor=vpQueryFiltersFor
//vp:override (*bs.blockFilterCursor).release=vpCursorReleaseNop
//vp:override bs.readPooledBlockRowData=vpReadRowDataOK
//vp:override (*bs.compiledRowMatcher).matchRowBytes=vpMatchAll
//vp:override bs.materializeRow=vpMaterializeOK
//vp:maxsteps 400000
//vp:bounds the real Query with all its goroutines, MaxQueryConcurrency 1 or 2, query A over 1 file of 7 one-row matching blocks whose consumer never reads, then query B over the same file read to completion; no faults; goroutines run to their next blocking point
func H_C22_stalled_query_starves_no_one() {
	w := vpNewWorld()
	w.openAlways = true
	vpQuerySetupFixed(w, 1, 7)
	conc := 1 + nondetChoice(2)
	b := vpQueryEngine(w, conc)
	vpScanData = []byte{2, 0, 0, 0, '{', '}'}
	ra, err := b.Query(vpNewCtx(nil), NewQuery().Field("f").Build())
	vpAssert(err == nil, "C20: Query failed")
	vpQuiesce() // query A has filled the cursor buffer and its workers are parked
	vpAssert(len(ra.rowChan) == queryRowBatchBuffer, "C22: a query with matching rows and the whole budget to itself stopped before its cursor buffer was full (its own stages starve each other of query slots)")
	vpAssert(len(b.querySemaphore) == 0, "C22: a query whose consumer stopped reading keeps query slots")
	rb, err := b.Query(vpNewCtx(nil), NewQuery().Field("f").Build())
	vpAssert(err == nil, "C20: Query failed")
	got := 0
	for rb.Next() {
		got++
		vpAssert(got <= 7, "C02: more rows than stored")
	}
	vpAssert(rb.Err() == nil && got == 7, "C22: a query did not complete while another query's consumer is stalled")
	vpAssert(ra.Close() == nil, "C20: Close returned an error")
	vpAssert(len(b.querySemaphore) == 0, "C21: budget not restored")
}

// The same with many single-block files: the block-job queue (16) and the cursor buffer (4) fill,
// so the file worker itself blocks while dispatching — it must not hold a slot there either.
//
//vp:override (*bs.BloomSearchEngine).evaluateBloomFilters=vpQueryVerdictStub
//vp:override (*bs.blockFilterCursor).filtersFor=vpQueryFiltersFor
//vp:override (*bs.blockFilterCursor).release=vpCursorReleaseNop
//vp:override bs.readPooledBlockRowData=vpReadRowDataOK
//vp:override (*bs.compiledRowMatcher).matchRowBytes=vpMatchAll
//vp:override bs.materializeRow=vpMaterializeOK
//vp:maxsteps 3000000
//vp:bounds the real Query (all goroutines), MaxQueryConcurrency 1 or 2, 28 files of one matching one-row block each, consumer never reads; then a second query over the same files read to completion
func H_C22_stalled_query_over_many_files_starves_no_one() {
	w := vpNewWorld()
	w.openAlways = true
	const nFiles = 28
	vpQuerySetupFixed(w, nFiles, 1)
	conc := 1 + nondetChoice(2)
	b := vpQueryEngine(w, conc)
	vpScanData = []byte{2, 0, 0, 0, '{', '}'}
	ra, err := b.Query(vpNewCtx(nil), NewQuery().Field("f").Build())
	vpAssert(err == nil, "C20: Query failed")
	vpQuiesce()
	vpAssert(len(ra.rowChan) == queryRowBatchBuffer, "C22: a query with matching rows and the whole budget to itself stopped before its cursor buffer was full (its own stages starve each other of query slots)")
	vpAssert(len(b.querySemaphore) == 0, "C22: a query whose consumer stopped reading keeps query slots (a worker is blocked while holding one)")
	rb, err := b.Query(vpNewCtx(nil), NewQuery().Field("f").Build())
	vpAssert(err == nil, "C20: Query failed")
	got := 0
	for rb.Next() {
		got++
		vpAssert(got <= nFiles, "C02: more rows than stored")
	}
	vpAssert(rb.Err() == nil && got == nFiles, "C22: a query did not complete while another query's consumer is stalled")
	vpAssert(ra.Close() == nil, "C20: Close returned an error")
	vpAssert(len(b.querySemaphore) == 0, "C21: budget not restored")
}
