package bloomsearch

import (
	"context"
	"errors"
	"io"
	"time"

	"github.com/bits-and-blooms/bloom/v3"
)

// ---------------------------------------------------------------------------------------------
// C23 — query statistics account for every evaluated block exactly once (filter pass and the
// Stats aggregation), with the C24 obligations that fall out of the same run: no open and no
// filter read without bloom conditions or without filter sections, pruned blocks are never
// handed on for a scan.
// ---------------------------------------------------------------------------------------------

// vpCancelCtx: a query context that may become cancelled at any Err()/Done() observation and stays
// cancelled (cancellation landing between any two steps of the code under test).
type vpCancelCtx struct {
	may      bool
	canceled bool
	done     chan struct{}
}

func (c *vpCancelCtx) observe() {
	if c.may && !c.canceled && nondetBool() {
		c.canceled = true
		close(c.done)
	}
}
func (c *vpCancelCtx) Err() error {
	c.observe()
	if c.canceled {
		return context.Canceled
	}
	return nil
}
func (c *vpCancelCtx) Done() <-chan struct{}       { c.observe(); return c.done }
func (c *vpCancelCtx) Deadline() (time.Time, bool) { return time.Time{}, false }
func (c *vpCancelCtx) Value(key any) any           { return nil }

var vpFilterReads []int // block indexes whose filters were asked from the cursor

// filtersFor stand-in: the section parses, is malformed (this block only), or the read fails.
func vpFiltersForStub(c *blockFilterCursor, i int) (*BloomFilters, time.Duration, bool, error) {
	vpFilterReads = append(vpFilterReads, i)
	if vpIOSlot != nil {
		vpAssert(vpIOSlot.held, "C22: block filter sections read without holding a query slot")
	}
	switch nondetChoice(3) {
	case 1:
		return nil, 0, false, errors.New("malformed filter section")
	case 2:
		return nil, 0, true, errors.New("read failed")
	}
	return &BloomFilters{}, 0, false, nil
}

// the filter verdict is arbitrary (its meaning is C01/C25)
func vpSurvivesStub(b *BloomSearchEngine, f, t, ft *bloom.BloomFilter, q *BloomQuery) bool {
	return nondetBool()
}

func vpCursorReleaseNop(c *blockFilterCursor) {}

//vp:override (*bs.blockFilterCursor).filtersFor=vpFiltersForStub
//vp:override (*bs.BloomSearchEngine).evaluateBloomFilters=vpSurvivesStub
//vp:override (*bs.blockFilterCursor).release=vpCursorReleaseNop
//vp:bounds 1..2 blocks (thorough 3) with symbolic filter-section extents and region; bloom query present or absent; open succeeds or fails; each section parses / is malformed / fails to read; verdict arbitrary; cancellation at any context observation or never
func H_C23_filter_pass_accounts_for_every_block() {
	n := 1 + nondetChoice(vpBound(2, 3))
	w := vpNewWorld()
	w.openMaySucceed = true
	ctx := &vpCancelCtx{may: nondetBool(), done: make(chan struct{})}
	r := &Results{ctx: ctx, callerCtx: ctx}
	slot := &querySlot{sem: make(chan struct{}, 1), ctx: ctx}
	pool := newFileHandlePool(&vpStore{w})
	ptr := vpPointer(0)
	pool.retain(ptr)
	blocks := make([]DataBlockMetadata, n)
	for i := range blocks {
		blocks[i] = DataBlockMetadata{RowDataOffset: 100 * i, RowDataSize: 100, Rows: nondetInt(), BloomFilterOffset: nondetInt(), BloomFilterSize: nondetInt()}
	}
	job := fileFilterJob{filePointer: ptr, filterRegionOffset: nondetInt(), filterRegionSize: nondetInt(), blocks: blocks}
	var q *BloomQuery
	switch nondetChoice(3) {
	case 1:
		q = &BloomQuery{}
	case 2:
		q = &BloomQuery{Expression: &BloomExpression{}}
	}
	hasBloom := q != nil && q.Expression != nil
	vpFilterReads = nil
	b := &BloomSearchEngine{}
	out := b.evaluateBlockFilters(r, slot, pool, job, blocks, q, nil)

	// every block at most once, as a survivor or as a stats entry
	seen := make([]int, n)
	for _, c := range out {
		vpAssert(c.index >= 0 && c.index < n, "C23: survivor index outside the evaluated blocks")
		seen[c.index]++
	}
	for _, s := range r.blockStats {
		i := s.BlockOffset / 100
		vpAssert(i >= 0 && i < n && s.BlockOffset == 100*i, "C23: stats entry for a block that was not evaluated")
		seen[i]++
		vpAssert(s.RowsProcessed == 0 && s.BytesProcessed == 0, "C23: a block that was not scanned reports scanned rows or bytes")
		vpAssert(s.TotalRows == int64(blocks[i].Rows) && s.TotalBytes == int64(blocks[i].OnDiskSize()), "C23: stats entry does not carry the block's metadata totals")
	}
	for i := 0; i < n; i++ {
		vpAssert(seen[i] <= 1, "C23: a block is accounted twice (two entries, or entry and survivor)")
		if !ctx.canceled {
			vpAssert(seen[i] == 1, "C23: an evaluated block is neither a survivor nor in the stats")
		}
	}
	// C24: nothing is opened or read without bloom conditions
	if !hasBloom {
		vpAssert(len(w.events) == 0 && len(vpFilterReads) == 0 && len(out) == n, "C24: filter data was opened or read for a query without bloom conditions")
	}
	vpAssert(w.count(evOpen, -1) <= 1, "C24: the file was opened more than once for one filter pass")
	// the handle lent for the pass is back in the pool or closed
	if w.count(evOpen, -1) == 1 && len(vpFilterReads) > 0 {
		idle := 0
		if e := pool.files[string(ptr)]; e != nil {
			idle = len(e.idle)
		}
		vpAssert(idle+w.count(evReadClose, -1) == 1, "C21/C23: the handle opened for the filter pass was neither returned nor closed exactly once")
	}
	if !ctx.canceled {
		vpAssert((len(r.errs) > 0) == vpAnyEntryFailed(r), "C23: a failure was recorded without a failed block, or a failed block without an error")
	}
}

// an entry that is neither processed nor pruned marks a block a failure kept from evaluation
func vpAnyEntryFailed(r *Results) bool {
	for _, s := range r.blockStats {
		if !s.BloomFilterSkipped {
			return true
		}
	}
	return false
}

// Stats totals equal the per-block sums; processed + skipped = entries.
//
//vp:bounds 0..3 recorded entries with arbitrary 64-bit counters and flags; rowsMatched arbitrary; finished or in flight
func H_C23_stats_totals_are_the_per_block_sums() {
	n := nondetChoice(4)
	r := &Results{}
	var rows, bytes int64
	skipped := 0
	for i := 0; i < n; i++ {
		s := BlockStats{BlockOffset: i, RowsProcessed: nondetInt64(), BytesProcessed: nondetInt64(), BloomFilterSkipped: nondetBool()}
		rows += s.RowsProcessed
		bytes += s.BytesProcessed
		if s.BloomFilterSkipped {
			skipped++
		}
		r.recordBlockStats(s)
	}
	m := nondetInt64()
	r.rowsMatched.Store(m)
	r.finished = true
	r.duration = time.Duration(nondetInt64())
	st := r.Stats()
	vpAssert(len(st.BlockStats) == n, "C23: Stats lost or invented block entries")
	vpAssert(st.BlocksSkipped+st.BlocksProcessed == n && st.BlocksSkipped == skipped, "C23: processed + skipped does not equal the entries")
	vpAssert(st.RowsScanned == rows && st.BytesScanned == bytes, "C23: totals differ from the per-block sums")
	vpAssert(st.RowsMatched == m && st.Duration == r.duration, "C23: RowsMatched/Duration are not the recorded values")
	for i := range st.BlockStats {
		vpAssert(st.BlockStats[i].BlockOffset == i, "C23: Stats reordered the entries")
	}
}

// ---- the block scan: exactly one entry on every exit path, counting what was scanned ----

var (
	vpScanData    []byte
	vpScanMatched int // rows the matcher stub accepted
	vpScanSeen    int // rows handed to the matcher stub
	vpScanBytes   int64
)

// readPooledBlockRowData stand-in: the read fails, or yields the prepared section.
var vpReadFailed bool

func vpReadRowDataStub(file io.ReadSeeker, block *DataBlockMetadata) ([]byte, func(), error) {
	if vpIOSlot != nil {
		vpAssert(vpIOSlot.held, "C22: block row data read without holding a query slot")
	}
	if nondetBool() {
		vpReadFailed = true
		return nil, nil, errors.New("read failed")
	}
	return vpScanData, func() {}, nil
}

func vpMatchStub(m *compiledRowMatcher, rowBytes []byte, scratch *rowMatchScratch) bool {
	vpScanSeen++
	vpScanBytes += int64(len(rowBytes)) + int64(LengthPrefixSize)
	if nondetBool() {
		vpScanMatched++
		return true
	}
	return false
}

func vpMaterializeStub(rowBytes []byte) (map[string]any, error) {
	if nondetBool() {
		return nil, errors.New("row is not a JSON object")
	}
	return map[string]any{}, nil
}

//vp:override bs.readPooledBlockRowData=vpReadRowDataStub
//vp:override (*bs.compiledRowMatcher).matchRowBytes=vpMatchStub
//vp:override bs.materializeRow=vpMaterializeStub
//vp:bounds one block of 0..2 rows (row length 0 or 2 bytes) optionally followed by a truncated length prefix; open / read / materialize fail or succeed arbitrarily; matcher verdict arbitrary; cancellation at any context observation or never
func H_C23_block_scan_records_exactly_one_entry() {
	w := vpNewWorld()
	w.openMaySucceed = true
	ctx := &vpCancelCtx{may: nondetBool(), done: make(chan struct{})}
	r := &Results{ctx: ctx, callerCtx: ctx, rowChan: make(chan []map[string]any, queryRowBatchBuffer)}
	slot := &querySlot{sem: make(chan struct{}, 1), ctx: ctx}
	vpAssume(slot.acquire())
	pool := newFileHandlePool(&vpStore{w})
	ptr := vpPointer(0)
	pool.retain(ptr)
	k := nondetChoice(3)
	vpScanData, vpScanMatched, vpScanSeen, vpScanBytes = nil, 0, 0, 0
	var want int64
	for i := 0; i < k; i++ {
		if nondetBool() {
			vpScanData = append(vpScanData, 2, 0, 0, 0, '{', '}')
			want += 6
		} else {
			vpScanData = append(vpScanData, 0, 0, 0, 0)
			want += 4
		}
	}
	corrupt := nondetBool()
	if corrupt {
		vpScanData = append(vpScanData, 9, 0)
	}
	rows := nondetInt()
	job := dataBlockJob{filePointer: ptr, blockMetadata: DataBlockMetadata{RowDataOffset: 700, RowDataSize: 50, BloomFilterSize: 7, Rows: rows}}
	b := &BloomSearchEngine{}
	b.processDataBlock(r, slot, pool, job, &compiledRowMatcher{}, nil)

	vpAssert(len(r.blockStats) == 1, "C23: a scanned block did not record exactly one stats entry")
	s := r.blockStats[0]
	vpAssert(s.BlockOffset == 700 && !s.BloomFilterSkipped && s.TotalRows == int64(rows) && s.TotalBytes == 57, "C23: the scan's entry does not describe its block")
	vpAssert(s.RowsProcessed == int64(vpScanSeen) && s.BytesProcessed == vpScanBytes, "C23: RowsProcessed/BytesProcessed differ from the rows actually scanned")
	delivered := 0
	for len(r.rowChan) > 0 {
		delivered += len(<-r.rowChan)
	}
	vpAssert(r.rowsMatched.Load() == int64(delivered), "C23: RowsMatched differs from the rows handed to the cursor")
	vpAssert(delivered <= vpScanMatched, "C02/C23: more rows delivered than the matcher accepted")
	if !ctx.canceled && len(r.errs) == 0 {
		vpAssert(s.RowsProcessed == int64(k) && s.BytesProcessed == want, "C23: a clean scan did not process every row of the block")
		vpAssert(delivered == vpScanMatched, "C01/C23: a clean scan dropped a matched row")
		vpAssert(!corrupt, "C19: a truncated length prefix was not reported")
	}
	if delivered > 0 {
		vpAssert(s.RowsProcessed > 0, "C23: a block that contained a returned row reports nothing processed")
	}
	vpAssert(slot.held || ctx.canceled, "C22: the scan returned without its query slot although the query is live")
}
