package bloomsearch

import (
	"context"
	"errors"
	"log/slog"
	"time"
)

// ---------------------------------------------------------------------------------------------
// The ingest side as a closed system: the real NewBloomSearchEngine / Start / IngestRows / Flush /
// Stop / ingestWorker / processIngestRequest / flushBufferedData / triggerFlush / flushWorker /
// handleFlush / abortFileWriter / WriteFileFooter / send helpers run as goroutines of the
// executor (callers, the ingest actor, the flush worker, Stop's waiter, the AfterFunc goroutine)
// against fault-injecting stub stores. Used by C05, C07, C08, C09, C10.
// ---------------------------------------------------------------------------------------------

var vpTickers []chan time.Time

// time.NewTicker (harness Go model): a ticker fires only when the harness says so (vpTick), which
// makes "the ticker may fire at any of these points" an explicit choice of the harness.
func vpModel_time_NewTicker(d time.Duration) *time.Ticker {
	ch := make(chan time.Time, 1)
	vpTickers = append(vpTickers, ch)
	return &time.Ticker{C: ch}
}

// vpTick makes every model ticker fire once (natively the real tickers fire on their own).
func vpTick() {
	for _, ch := range vpTickers {
		select {
		case ch <- time.Time{}:
		default:
		}
	}
}

type vpSysCfg struct {
	ingestBuf       int
	maxBufferedRows int
	maxRowGroupRows int
	maxBufferedTime time.Duration
}

func vpNewIngestSystem(w *vpWorld, c vpSysCfg) *BloomSearchEngine {
	vpTickers = nil
	cfg := BloomSearchEngineConfig{
		Tokenizer: BasicWhitespaceLowerTokenizer, MaxRowGroupRows: c.maxRowGroupRows, MaxRowGroupBytes: 1 << 20,
		MaxFileSize: 1 << 30, MaxBufferedRows: c.maxBufferedRows, MaxBufferedBytes: 1 << 20, MaxBufferedTime: c.maxBufferedTime,
		IngestBufferSize: c.ingestBuf, BloomFalsePositiveRate: 0.01, MaxQueryConcurrency: 1, MaxFilesToMergePerOperation: 2,
		RowDataCompression: CompressionNone,
	}
	b, err := NewBloomSearchEngine(cfg, &vpMeta{w}, &vpStore{w})
	vpAssert(err == nil && b != nil, "C09: NewBloomSearchEngine rejected a valid configuration")
	return b
}

type vpBatch struct {
	kind     int // 0 good row, 1 empty batch, 2 unmarshalable row
	done     chan error
	accepted bool
	noDone   bool
	taken    bool // IngestRows returned nil (also true for a batch without a done channel)
}

func vpSubmit(b *BloomSearchEngine, ctx context.Context, kind int) *vpBatch {
	bt := &vpBatch{kind: kind, done: make(chan error, 2)}
	if kind == 4 { // fire-and-forget: a good row without a done channel
		bt.kind, bt.done, bt.noDone = 0, nil, true
	}
	var rows []map[string]any
	switch bt.kind {
	case 0:
		rows = []map[string]any{vpBatchRow(false, "p")}
	case 2:
		rows = []map[string]any{vpBatchRow(true, "p")}
	}
	bt.accepted = b.IngestRows(ctx, rows, bt.done) == nil
	bt.taken = bt.accepted
	if bt.noDone {
		bt.done = make(chan error, 2) // nobody can have answered it: stays empty
		bt.accepted = false
	}
	return bt
}

// vpCheckAnswered: exactly one answer, of the right kind.
func vpCheckAnswered(w *vpWorld, bt *vpBatch) {
	if !bt.accepted {
		vpAssert(len(bt.done) == 0, "C05: a batch that was not accepted received an answer")
		return
	}
	vpAssert(len(bt.done) >= 1, "C05: an accepted batch was never answered although Stop returned nil")
	vpAssert(len(bt.done) == 1, "C05: an accepted batch was answered twice")
	err := <-bt.done
	switch bt.kind {
	case 1:
		vpAssert(err == nil, "C05: an empty batch was answered with an error")
	case 2:
		vpAssert(err != nil, "C06: a batch with an unmarshalable row was acknowledged nil")
	default:
		if err == nil {
			vpAssert(w.count(evUpdateOK, -1) >= 1, "C06: nil acknowledged although nothing was ever committed to the MetaStore")
		}
	}
}

// Lifecycle histories: batches accepted before Start, empty and rejected batches, Flush, store
// faults at any call, then a graceful Stop.
//
//vp:override (*bs.bloomEntrySets).indexRow=vpIndexRowNop
//vp:override (*bs.bloomEntrySets).buildFilters=vpBuildFiltersStub
//vp:override bs.encodeFilterSection=vpEncodeSectionStub
//vp:maxsteps 300000
//vp:bounds ingest buffer 2 (thorough 1..2), MaxBufferedRows 1..2; a history of up to 3 (thorough 4) calls drawn from IngestRows(good row | empty batch | unmarshalable row | good row without a done channel) and Flush, Start landing before any of them or after all (batches accepted before Start); CreateFile and MetaStore.Update fail or succeed arbitrarily at every call; then Stop(background); goroutines run to their next blocking point
func H_C05_lifecycle_histories_answer_every_accepted_batch_once() {
	w := vpNewWorld()
	// one flush's fault paths are C06's subject; here a flush fails at CreateFile or at the commit, or not at all
	w.failWrite, w.failClose, w.failTombstone = false, false, false
	c := vpSysCfg{ingestBuf: vpBound(2, 1+nondetChoice(2)), maxBufferedRows: 1 + nondetChoice(2), maxRowGroupRows: 1000, maxBufferedTime: time.Hour}
	b := vpNewIngestSystem(w, c)
	vpSetClock(2)
	nOps := 1 + nondetChoice(vpBound(3, 4))
	startAt := nondetChoice(nOps + 1)
	var batches []*vpBatch
	started := false
	queuedBeforeStart := 0
	for i := 0; i < nOps; i++ {
		if i == startAt {
			b.Start()
			started = true
		}
		kind := nondetChoice(5)
		if kind == 3 {
			vpAssume(started) // Flush on an engine that was never started waits for its Start
			ferr := b.Flush(context.Background())
			// Flush is a durability barrier: everything accepted before it has been answered
			for _, bt := range batches {
				vpAssert(!bt.accepted || len(bt.done) == 1, "C07: Flush returned before an earlier accepted batch was answered")
			}
			if ferr == nil {
				for _, bt := range batches {
					if bt.accepted && bt.kind == 0 && len(bt.done) == 1 {
						// peek without consuming: re-queue the value
						v := <-bt.done
						bt.done <- v
						_ = v
					}
				}
			}
			continue
		}
		if !started {
			vpAssume(queuedBeforeStart < c.ingestBuf) // a full buffer before Start makes IngestRows wait for Start
			queuedBeforeStart++
		}
		batches = append(batches, vpSubmit(b, context.Background(), kind))
	}
	if !started && startAt == nOps && nondetBool() {
		b.Start()
		started = true
	}
	serr := b.Stop(context.Background())
	vpAssert(serr == nil, "C08: Stop without a deadline returned an error")
	for _, bt := range batches {
		vpCheckAnswered(w, bt)
	}
	// "no accepted batch is silently dropped": with no store failure in the whole history, every
	// accepted row — with or without a done channel — is in a committed file once Stop returned nil
	if w.count(evCreateFail, -1) == 0 && w.count(evUpdateFail, -1) == 0 {
		goodRows := 0
		for _, bt := range batches {
			if bt.taken && bt.kind == 0 {
				goodRows++
			}
		}
		vpAssert(w.committedRows == goodRows, "C05: Stop returned nil and no store call failed, yet the committed files do not hold exactly the accepted rows (a batch was silently dropped or duplicated)")
	}
	// once Stop has begun, new work is refused and nothing is queued
	late := vpSubmit(b, context.Background(), 0)
	vpAssert(!late.accepted && len(late.done) == 0, "C08: IngestRows accepted a batch after Stop")
	vpAssert(errors.Is(b.Flush(context.Background()), ErrEngineStopped), "C08: Flush after Stop did not return ErrEngineStopped")
	vpAssert(len(b.ingestChan) == 0 && len(b.flushChan) == 0, "C05: requests were left queued after a graceful Stop")
}

// ---- C05: a producer racing with Stop ----

//vp:override (*bs.bloomEntrySets).indexRow=vpIndexRowNop
//vp:override (*bs.bloomEntrySets).buildFilters=vpBuildFiltersStub
//vp:override bs.encodeFilterSection=vpEncodeSectionStub
//vp:preempt 1
//vp:maxsteps 300000
//vp:bounds started engine, ingest buffer 1, MaxBufferedRows 1..2, no store faults; one producer goroutine calling IngestRows (good row) or Flush while the main goroutine calls Stop(background); at most 1 forced context switch to any goroutine before any channel/select/mutex operation, plus all switches at blocking points
func H_C05_caller_racing_with_stop_is_refused_or_answered() { vpCallerRacingWithStop() }

//vp:override (*bs.bloomEntrySets).indexRow=vpIndexRowNop
//vp:override (*bs.bloomEntrySets).buildFilters=vpBuildFiltersStub
//vp:override bs.encodeFilterSection=vpEncodeSectionStub
//vp:preempt 2
//vp:thorough
//vp:maxsteps 300000
//vp:bounds started engine, ingest buffer 1, MaxBufferedRows 1..2, no store faults; one producer goroutine calling IngestRows (good row) or Flush while the main goroutine calls Stop(background); at most 2 forced context switches to any goroutine before any channel/select/mutex operation, plus all switches at blocking points
func H_C05_caller_racing_with_stop_two_forced_switches() { vpCallerRacingWithStop() }

func vpCallerRacingWithStop() {
	w := vpNewWorld()
	w.failCreate, w.failWrite, w.failClose, w.failUpdate, w.failTombstone = false, false, false, false, false
	b := vpNewIngestSystem(w, vpSysCfg{ingestBuf: 1, maxBufferedRows: 1 + nondetChoice(2), maxRowGroupRows: 1000, maxBufferedTime: time.Hour})
	vpSetClock(2)
	b.Start()
	useFlush := nondetBool()
	res := make(chan *vpBatch, 1)
	fres := make(chan error, 1)
	begun := make(chan struct{})
	go func() {
		close(begun)
		if useFlush {
			fres <- b.Flush(context.Background())
			return
		}
		res <- vpSubmit(b, context.Background(), 0)
	}()
	<-begun // the caller is under way (anywhere inside its call) when Stop begins
	vpAssert(b.Stop(context.Background()) == nil, "C08: Stop without a deadline returned an error")
	if useFlush {
		// Flush either was refused or was accepted and answered (it returns only when answered):
		// in both cases it returns; a Flush stuck forever shows as a deadlock of this harness
		ferr := <-fres
		vpAssert(ferr == nil || errors.Is(ferr, ErrEngineStopped), "C05: Flush racing with Stop returned an unexpected error")
		return
	}
	bt := <-res
	vpCheckAnswered(w, bt)
	if bt.accepted {
		vpAssert(w.count(evUpdateOK, -1) == 1, "C06: a batch acknowledged nil during shutdown was never committed")
	}
}

// ---- C07: Flush is a durability barrier; waiters are answered in acceptance order ----

//vp:override (*bs.bloomEntrySets).indexRow=vpIndexRowNop
//vp:override (*bs.bloomEntrySets).buildFilters=vpBuildFiltersStub
//vp:override bs.encodeFilterSection=vpEncodeSectionStub
//vp:maxsteps 300000
//vp:bounds started engine, ingest buffer 2, MaxBufferedRows 1; a batch whose flush is held inside a wedged CreateFile, then one or two overlapping Flush callers (goroutines); the store is released only after every goroutine has parked; commit succeeds or fails
func H_C07_flush_returns_only_after_earlier_batches_are_answered() {
	w := vpNewWorld()
	w.failCreate, w.failWrite, w.failClose, w.failTombstone = false, false, false, false
	w.wedge = make(chan struct{})
	b := vpNewIngestSystem(w, vpSysCfg{ingestBuf: 2, maxBufferedRows: 1, maxRowGroupRows: 1000, maxBufferedTime: time.Hour})
	vpSetClock(2)
	b.Start()
	bt := vpSubmit(b, context.Background(), 0)
	vpAssert(bt.accepted, "C05: IngestRows refused a batch on a running engine")
	nFlush := 1 + nondetChoice(2)
	results := make(chan error, 2)
	early := false
	for i := 0; i < nFlush; i++ {
		go func() {
			err := b.Flush(context.Background())
			if len(bt.done) == 0 {
				early = true // returned while the earlier batch was still unanswered
			}
			results <- err
		}()
	}
	vpQuiesce() // the batch's flush is parked in CreateFile; the Flush requests are queued behind it
	vpAssert(w.createCalls == 1, "harness: the batch's flush did not reach the wedged store")
	vpAssert(len(results) == 0, "C07: Flush returned while the flush of an earlier accepted batch was still in flight")
	vpAssert(len(bt.done) == 0, "C06: a batch was acknowledged while its file was still being created")
	close(w.wedge)
	for i := 0; i < nFlush; i++ {
		<-results
	}
	vpAssert(!early, "C07: Flush returned before an earlier accepted batch was answered")
	vpAssert(len(bt.done) == 1, "C05: the batch was not answered exactly once")
	vpAssert(b.Stop(context.Background()) == nil, "C08: Stop returned an error")
}

// handleFlush answers its waiters in slice order, each with a blocking hand-off: a consumer that
// receives from whichever waiter is ready sees them in order.
//
//vp:override (*bs.bloomEntrySets).buildFilters=vpBuildFiltersStub
//vp:override bs.encodeFilterSection=vpEncodeSectionStub
//vp:bounds one flush (1 partition buffer or ack-only) with 3 unbuffered waiters and one consumer goroutine selecting over all of them; every store call fails or succeeds arbitrarily
func H_C07_waiters_of_one_flush_are_answered_in_order() {
	w := vpNewWorld()
	b := vpFlushEngine(w)
	ws := []chan error{make(chan error), make(chan error), make(chan error)}
	var order []int
	finished := make(chan struct{})
	go func() {
		for len(order) < 3 {
			select {
			case <-ws[0]:
				order = append(order, 0)
			case <-ws[1]:
				order = append(order, 1)
			case <-ws[2]:
				order = append(order, 2)
			}
		}
		close(finished)
	}()
	req := flushRequest{doneChans: ws}
	if nondetBool() {
		req.partitionBuffers = map[string]*partitionBuffer{"p": vpPartitionBuffer("p")}
	}
	b.handleFlush(context.Background(), req)
	<-finished
	vpAssert(order[0] == 0 && order[1] == 1 && order[2] == 2, "C07: the waiters of one flush were not answered in acceptance order")
}

var vpTriggered []flushRequest

func vpTriggerRec(b *BloomSearchEngine, bufs map[string]*partitionBuffer, done []chan error) {
	vpTriggered = append(vpTriggered, flushRequest{partitionBuffers: bufs, doneChans: done})
}

// The ingest actor keeps waiters in acceptance order, never answers a Flush request itself, and
// hands everything it holds to exactly one flush request.
//
//vp:override (*bs.BloomSearchEngine).triggerFlush=vpTriggerRec
//vp:override (*bs.bloomEntrySets).indexRow=vpIndexRowNop
//vp:bounds actor state with 0..2 earlier waiters and 0..1 buffered partition; one request: Flush, empty batch, good batch (1 row) or rejected batch; limits far away or reached
func H_C07_actor_keeps_acceptance_order() {
	b := &BloomSearchEngine{config: BloomSearchEngineConfig{BloomFalsePositiveRate: 0.01, RowDataCompression: CompressionNone,
		MaxRowGroupRows: 1000, MaxRowGroupBytes: 1 << 20, MaxBufferedRows: 1000, MaxBufferedBytes: 1 << 20, MaxBufferedTime: time.Hour}}
	b.logger = slog.New(slog.DiscardHandler)
	if nondetBool() {
		b.config.MaxBufferedRows = 1
	}
	vpSetClock(2)
	bufs := map[string]*partitionBuffer{}
	rowCount, byteCount := 0, 0
	var started time.Time
	nOld := nondetChoice(3)
	var waiters []chan error
	for i := 0; i < nOld; i++ {
		waiters = append(waiters, make(chan error, 2))
	}
	old := append([]chan error(nil), waiters...)
	if nOld > 0 {
		bufs[""] = vpPartitionBuffer("")
		rowCount, byteCount = 1, 6
		started = time.Now()
	}
	kind := nondetChoice(4)
	d := make(chan error, 2)
	req := &ingestRequest{doneChan: d}
	switch kind {
	case 0:
		req.forceFlush = true
	case 2:
		req.rows = []map[string]any{vpBatchRow(false, "")}
	case 3:
		req.rows = []map[string]any{vpBatchRow(true, "")}
	}
	vpTriggered = nil
	b.processIngestRequest(context.Background(), req, bufs, &waiters, &rowCount, &byteCount, &started)
	vpAssert(len(vpTriggered) <= 1, "C07: one request produced more than one flush request")
	switch kind {
	case 0:
		vpAssert(len(d) == 0, "C07: the ingest actor answered a Flush request itself instead of queueing it behind earlier flushes")
		vpAssert(len(vpTriggered) == 1, "C07: a Flush request was not handed to the flush queue")
	case 1:
		vpAssert(len(d) == 1 && len(vpTriggered) == 0 && len(waiters) == nOld, "C05: an empty batch was not answered exactly once on the spot")
	case 3:
		vpAssert(len(d) == 1 && len(vpTriggered) == 0 && len(waiters) == nOld, "C05: a rejected batch was not answered exactly once on the spot")
	}
	if len(vpTriggered) == 1 {
		got := vpTriggered[0].doneChans
		want := old
		if kind == 0 || kind == 2 {
			want = append(append([]chan error(nil), old...), d)
		}
		vpAssert(len(got) == len(want), "C05: the flush request does not carry exactly the waiters of the buffered batches")
		for i := range want {
			vpAssert(got[i] == want[i], "C07: waiters handed to the flush queue are not in acceptance order")
		}
		vpAssert(len(waiters) == 0 && len(bufs) == 0 && rowCount == 0 && byteCount == 0, "C05: the actor kept waiters or rows after handing them to a flush")
		// the queued request owns its waiter list: what the actor appends for the next batch must
		// not show up in it (the request may sit in the flush queue while the actor carries on)
		waiters = append(waiters, make(chan error, 2))
		for i := range want {
			vpAssert(vpTriggered[0].doneChans[i] == want[i], "C05: a queued flush request shares its waiter list with the ingest actor: the next accepted batch's waiter overwrites a queued one (one batch answered twice, another never)")
		}
	} else if kind == 2 {
		vpAssert(len(waiters) == nOld+1 && waiters[nOld] == d, "C07: an accepted batch's waiter was not appended behind the earlier ones")
		for i := range old {
			vpAssert(waiters[i] == old[i], "C07: earlier waiters were reordered")
		}
		vpAssert(len(d) == 0, "C06: a buffered batch was acknowledged before any flush")
	}
}

//vp:override (*bs.BloomSearchEngine).triggerFlush=vpTriggerRec
//vp:override (*bs.bloomEntrySets).indexRow=vpIndexRowNop
//vp:bounds as H_C07_actor_keeps_acceptance_order (answered on the spot exactly once, or queued exactly once in a flush request that owns its waiter list)
func H_C05_actor_step_answers_or_queues_each_request_once() { H_C07_actor_keeps_acceptance_order() }

// Requests that queue up behind a busy flush worker keep their own waiters: a batch in flight, a
// Flush caller whose ack-only request waits in the flush queue, then further batches.
//
//vp:override (*bs.bloomEntrySets).indexRow=vpIndexRowNop
//vp:override (*bs.bloomEntrySets).buildFilters=vpBuildFiltersStub
//vp:override bs.encodeFilterSection=vpEncodeSectionStub
//vp:maxsteps 300000
//vp:bounds started engine, ingest buffer 2, MaxBufferedRows 1, store wedged inside CreateFile, no store faults; batch A (its flush in flight), a Flush caller (goroutine) whose ack-only request queues behind it, then batch B and optionally batch C; the store is released once every goroutine has parked; then Stop(background)
func H_C05_requests_queued_behind_a_busy_flush_keep_their_own_waiters() {
	w := vpNewWorld()
	w.failCreate, w.failWrite, w.failClose, w.failUpdate, w.failTombstone = false, false, false, false, false
	w.wedge = make(chan struct{})
	b := vpNewIngestSystem(w, vpSysCfg{ingestBuf: 2, maxBufferedRows: 1, maxRowGroupRows: 1000, maxBufferedTime: time.Hour})
	vpSetClock(2)
	b.Start()
	batches := []*vpBatch{vpSubmit(b, context.Background(), 0)}
	vpQuiesce() // A's flush is parked in CreateFile
	vpAssert(w.createCalls == 1, "harness: the first flush did not reach the wedged store")
	fres := make(chan error, 1)
	go func() { fres <- b.Flush(context.Background()) }()
	vpQuiesce() // the ack-only request of the Flush caller sits in the flush queue
	batches = append(batches, vpSubmit(b, context.Background(), 0))
	if nondetBool() {
		batches = append(batches, vpSubmit(b, context.Background(), 0))
	}
	vpQuiesce()
	vpAssert(len(fres) == 0, "C07: Flush returned while an earlier batch's flush is still in flight")
	for _, bt := range batches {
		vpAssert(bt.accepted && len(bt.done) == 0, "C06: a batch was answered while the store is wedged (nothing can be durable yet)")
	}
	close(w.wedge)
	ferr := <-fres // a Flush that is never answered shows as a deadlock of this harness
	vpAssert(ferr == nil, "C05: Flush failed although no store call failed")
	vpAssert(b.Stop(context.Background()) == nil, "C08: Stop without a deadline returned an error")
	for _, bt := range batches {
		vpCheckAnswered(w, bt)
	}
	vpAssert(w.committedRows == len(batches), "C05: the committed files do not hold exactly the accepted rows")
}

// ---- C08: Stop and its deadline ----

// vpLateCtx: a context whose AfterFunc callbacks run only when the harness says so (a Context
// implementation that runs context.AfterFunc callbacks late).
type vpLateCtx struct {
	*vpCtxNode
	pending []func()
}

func (c *vpLateCtx) AfterFunc(f func()) func() bool {
	c.pending = append(c.pending, f)
	return func() bool { return true }
}

//vp:override (*bs.bloomEntrySets).indexRow=vpIndexRowNop
//vp:override (*bs.bloomEntrySets).buildFilters=vpBuildFiltersStub
//vp:override bs.encodeFilterSection=vpEncodeSectionStub
//vp:maxsteps 300000
//vp:bounds started engine, ingest buffer 1, MaxBufferedRows 1; store wedged inside CreateFile (honouring or ignoring its context); 1..2 accepted batches (one flush in flight, one queued), buffered or abandoned unbuffered waiters; Stop with a deadline that expires once everything has parked; the deadline context is of the context-package kind or runs AfterFunc callbacks late
func H_C08_stop_obeys_its_deadline_and_starts_no_new_store_work() {
	w := vpNewWorld()
	w.failCreate, w.failWrite, w.failClose, w.failUpdate, w.failTombstone = false, false, false, false, false
	w.wedge = make(chan struct{})
	w.wedgeIgnoresCtx = nondetBool()
	b := vpNewIngestSystem(w, vpSysCfg{ingestBuf: 1, maxBufferedRows: 1, maxRowGroupRows: 1000, maxBufferedTime: time.Hour})
	vpSetClock(2)
	b.Start()
	unbuffered := nondetBool()
	n := 1 + nondetChoice(2)
	var dones []chan error
	for i := 0; i < n; i++ {
		d := make(chan error, 1)
		if unbuffered {
			d = make(chan error) // abandoned: nobody ever receives
		}
		dones = append(dones, d)
		vpAssert(b.IngestRows(context.Background(), []map[string]any{vpBatchRow(false, "p")}, d) == nil, "C05: IngestRows refused a batch on a running engine")
	}
	vpQuiesce() // first flush parked in CreateFile, second (if any) queued
	vpAssert(w.createCalls == 1, "harness: the first flush did not reach the wedged store")
	node := vpNewCtx(nil)
	late := nondetBool()
	var deadline context.Context = node
	var lateCtx *vpLateCtx
	if late {
		lateCtx = &vpLateCtx{vpCtxNode: node}
		deadline = lateCtx
	}
	go func() {
		vpQuiesce() // the deadline expires once Stop is waiting
		node.cancelWith(context.DeadlineExceeded)
	}()
	serr := b.Stop(deadline)
	if w.wedgeIgnoresCtx || unbuffered {
		vpAssert(serr != nil, "harness: Stop returned nil although the pipeline is wedged")
	}
	if serr == nil {
		return
	}
	vpAssert(errors.Is(serr, context.DeadlineExceeded), "C08: Stop's deadline error does not wrap the context error")
	// Stop has returned the deadline error: flush work must already be aborted
	vpAssert(b.flushCtx.Err() != nil, "C08: Stop returned its deadline error while the flush context is still live (a queued flush can still start store work)")
	creates, updates := w.createCalls, w.count(evUpdateOK, -1)+w.count(evUpdateFail, -1)
	close(w.wedge) // the wedged store call comes back after Stop has returned
	vpQuiesce()
	vpAssert(w.createCalls == creates, "C08: a new CreateFile was started after Stop had returned its deadline error")
	newUpdates := w.count(evUpdateOK, -1) + w.count(evUpdateFail, -1) - updates
	if !w.wedgeIgnoresCtx {
		vpAssert(newUpdates == 0, "C08: a MetaStore.Update was started after Stop had returned its deadline error")
	}
	if !unbuffered {
		for _, d := range dones[1:] {
			vpAssert(len(d) == 1, "C08: a waiter that can still receive got silence instead of an error after the deadline")
			vpAssert(<-d != nil, "C08: a waiter of an abandoned flush was acknowledged nil")
		}
	}
	late2 := vpSubmit(b, context.Background(), 0)
	vpAssert(!late2.accepted, "C08: IngestRows accepted a batch after Stop")
	_ = lateCtx
}

// A caller blocked in IngestRows on a full ingest buffer holds the state read lock; Stop must still
// honour its deadline (the abort has to be armed before anything that can block).
//
//vp:override (*bs.bloomEntrySets).indexRow=vpIndexRowNop
//vp:override (*bs.bloomEntrySets).buildFilters=vpBuildFiltersStub
//vp:override bs.encodeFilterSection=vpEncodeSectionStub
//vp:maxsteps 300000
//vp:bounds started engine, ingest buffer 1, MaxBufferedRows 1, store wedged inside CreateFile (honouring its context), pipeline filled to the brim (one flush in flight, one queued, the actor blocked on the flush queue, one request in the ingest buffer) and one further IngestRows caller blocked on the full buffer; Stop with a deadline that expires once everything has parked
func H_C08_stop_with_blocked_callers_returns_by_its_deadline() {
	w := vpNewWorld()
	w.failCreate, w.failWrite, w.failClose, w.failUpdate, w.failTombstone = false, false, false, false, false
	w.wedge = make(chan struct{})
	b := vpNewIngestSystem(w, vpSysCfg{ingestBuf: 1, maxBufferedRows: 1, maxRowGroupRows: 1000, maxBufferedTime: time.Hour})
	vpSetClock(2)
	b.Start()
	var dones []chan error
	for i := 0; i < 4; i++ {
		d := make(chan error, 1)
		dones = append(dones, d)
		vpAssert(b.IngestRows(context.Background(), []map[string]any{vpBatchRow(false, "p")}, d) == nil, "C05: IngestRows refused a batch on a running engine")
		vpQuiesce()
	}
	vpAssert(len(b.ingestChan) == 1 && len(b.flushChan) == 1, "harness: the pipeline is not full")
	blockedRes := make(chan error, 1)
	d5 := make(chan error, 1)
	go func() {
		blockedRes <- b.IngestRows(context.Background(), []map[string]any{vpBatchRow(false, "p")}, d5)
	}()
	vpQuiesce()
	vpAssert(len(blockedRes) == 0, "C09: IngestRows returned although the ingest buffer is full")
	deadline := vpNewCtx(nil)
	go func() {
		vpQuiesce()
		deadline.cancelWith(context.DeadlineExceeded)
	}()
	serr := b.Stop(deadline) // a Stop that never returns shows as a deadlock of this harness
	vpAssert(serr == nil || errors.Is(serr, context.DeadlineExceeded), "C08: Stop returned an unexpected error")
	ierr := <-blockedRes
	if ierr == nil {
		vpQuiesce()
		vpAssert(len(d5) == 1, "C05/C08: a batch accepted while Stop was in progress got silence")
	}
	for _, d := range dones {
		vpAssert(len(d) == 1, "C08: a waiter that can still receive got silence instead of an answer after the deadline")
	}
}

// ---- C09: bounded backpressure ----

//vp:override (*bs.bloomEntrySets).indexRow=vpIndexRowNop
//vp:override (*bs.bloomEntrySets).buildFilters=vpBuildFiltersStub
//vp:override bs.encodeFilterSection=vpEncodeSectionStub
//vp:maxsteps 400000
//vp:bounds started engine, ingest buffer 1..2 (thorough 3), MaxBufferedRows 1..2 (thorough 3), store wedged inside CreateFile; one producer goroutine submitting up to 14 one-row batches back to back, all with or all without a done channel; observed once every goroutine has parked, then the store is released and the engine stopped
func H_C09_stalled_flushing_blocks_producers_within_a_bound() {
	w := vpNewWorld()
	w.failCreate, w.failWrite, w.failClose, w.failUpdate, w.failTombstone = false, false, false, false, false
	w.wedge = make(chan struct{})
	c := vpSysCfg{ingestBuf: 1 + nondetChoice(vpBound(2, 3)), maxBufferedRows: 1 + nondetChoice(vpBound(2, 3)), maxRowGroupRows: 1000, maxBufferedTime: time.Hour}
	b := vpNewIngestSystem(w, c)
	vpSetClock(2)
	b.Start()
	const total = 14
	accepted := 0
	producerDone := false
	var dones []chan error
	fireAndForget := nondetBool() // batches without a done channel get the same backpressure
	go func() {
		for i := 0; i < total; i++ {
			d := make(chan error, 1)
			if fireAndForget {
				d = nil
			}
			if b.IngestRows(context.Background(), []map[string]any{vpBatchRow(false, "p")}, d) == nil {
				accepted++
				if d != nil {
					dones = append(dones, d)
				}
			}
		}
		producerDone = true
	}()
	vpQuiesce()
	// in flight: one flush in the store, one queued, one in the actor's hands (each up to
	// MaxBufferedRows batches), plus the ingest buffer
	bound := 3*c.maxBufferedRows + c.ingestBuf
	vpAssert(!producerDone, "C09: every IngestRows call returned although flushing is stalled (no backpressure)")
	vpAssert(accepted <= bound, "C09: more batches were accepted than the documented bound while flushing is stalled")
	vpAssert(len(b.flushChan) <= 1 && len(b.ingestChan) <= c.ingestBuf, "C09: a queue grew beyond its configured capacity")
	unanswered := 0
	for _, d := range dones {
		if len(d) == 0 {
			unanswered++
		}
	}
	vpAssert(unanswered == len(dones), "C06: a batch was acknowledged while the store is wedged")
	close(w.wedge)
	vpQuiesce()
	vpAssert(producerDone && accepted == total, "C09: producers did not resume once flushing resumed")
	vpAssert(b.Stop(context.Background()) == nil, "C08: Stop returned an error")
	for _, d := range dones {
		vpAssert(len(d) == 1, "C05: an accepted batch was not answered exactly once")
	}
}

//vp:bounds every integer configuration field that NewBloomSearchEngine validates is an unconstrained value (ZstdCompressionLevel included); RowDataCompression drawn from "", none, snappy, zstd and an unknown name; BloomFalsePositiveRate from 0.01, 0 and 1; IngestBufferSize and MaxQueryConcurrency 1..3 on the accepting path
func H_C09_constructor_sizes_the_queues_from_the_configuration() {
	cfg := BloomSearchEngineConfig{
		Tokenizer: BasicWhitespaceLowerTokenizer, MaxRowGroupRows: nondetInt(), MaxRowGroupBytes: nondetInt(),
		MaxFileSize: nondetInt(), MaxBufferedRows: nondetInt(), MaxBufferedBytes: nondetInt(), MaxBufferedTime: time.Duration(nondetInt64()),
		IngestBufferSize: nondetInt(), BloomFalsePositiveRate: 0.01, MaxQueryConcurrency: nondetInt(), MaxFilesToMergePerOperation: nondetInt(),
		RowDataCompression: CompressionNone, ZstdCompressionLevel: nondetInt(),
	}
	compOK := true
	switch nondetChoice(5) {
	case 1:
		cfg.RowDataCompression = ""
	case 2:
		cfg.RowDataCompression = CompressionSnappy
	case 3:
		cfg.RowDataCompression = CompressionZstd
		compOK = cfg.ZstdCompressionLevel >= 1 && cfg.ZstdCompressionLevel <= 22
	case 4:
		cfg.RowDataCompression = "lz77"
		compOK = false
	}
	rateOK := true
	switch nondetChoice(3) {
	case 1:
		cfg.BloomFalsePositiveRate, rateOK = 0, false
	case 2:
		cfg.BloomFalsePositiveRate, rateOK = 1, false
	}
	if cfg.IngestBufferSize > 0 {
		vpAssume(cfg.IngestBufferSize <= 3)
	}
	if cfg.MaxQueryConcurrency > 0 {
		vpAssume(cfg.MaxQueryConcurrency <= 3)
	}
	w := vpNewWorld()
	b, err := NewBloomSearchEngine(cfg, &vpMeta{w}, &vpStore{w})
	valid := cfg.MaxRowGroupRows > 0 && cfg.MaxRowGroupBytes > 0 && cfg.MaxFileSize > 0 && cfg.MaxBufferedRows > 0 && cfg.MaxBufferedBytes > 0 &&
		cfg.MaxBufferedTime > 0 && cfg.IngestBufferSize > 0 && cfg.MaxQueryConcurrency > 0 && cfg.MaxFilesToMergePerOperation >= 2 && compOK && rateOK
	if !valid {
		vpAssert(err != nil && b == nil && errors.Is(err, ErrInvalidConfig), "C09: an invalid configuration was accepted")
		return
	}
	vpAssert(err == nil && b != nil, "C09: a valid configuration was rejected")
	vpAssert(b.config.RowDataCompression != "" && (cfg.RowDataCompression == "" || b.config.RowDataCompression == cfg.RowDataCompression), "C17: the engine does not write an explicit compression type / changed the configured one")
	vpAssert(cap(b.ingestChan) == cfg.IngestBufferSize, "C09: the ingest buffer is not IngestBufferSize deep")
	vpAssert(cap(b.flushChan) == 1, "C09: the flush queue is not one request deep")
	vpAssert(cap(b.querySemaphore) == cfg.MaxQueryConcurrency, "C22: the query semaphore does not have MaxQueryConcurrency slots")
	vpAssert(len(b.ingestChan) == 0 && len(b.flushChan) == 0 && len(b.querySemaphore) == 0, "C09: queues not empty at construction")
	vpAssert(!b.started && !b.stopped && b.ctx.Err() == nil && b.flushCtx.Err() == nil, "C05: a new engine is not in its initial lifecycle state")
}

// ---- C10: buffered rows are flushed without an explicit Flush ----

// One step of the ingest actor from an arbitrary buffered state with symbolic limits: whenever a
// row / byte / partition limit is reached by the batch just accepted, everything buffered —
// including this batch and its waiter — is handed to the flush queue before the step returns;
// otherwise the batch is buffered, its waiter queued, and the buffer clock is running.
//
//vp:override (*bs.BloomSearchEngine).triggerFlush=vpTriggerRec
//vp:override (*bs.bloomEntrySets).indexRow=vpIndexRowNop
//vp:bounds all four size limits symbolic (1..2^40), MaxBufferedTime one hour (elapsed time arbitrary, so the time trigger fires or not); buffered state: one partition with symbolic row/byte counts below its limits, symbolic totals below the buffer limits, clock running; a batch of 1..2 rows into the buffered partition, a new one, or one row into each (either order); elapsed time arbitrary
func H_C10_reaching_a_limit_hands_the_buffer_to_a_flush() {
	lim := func() int {
		v := nondetInt()
		vpAssume(v >= 1 && v < 1<<40)
		return v
	}
	b := &BloomSearchEngine{config: BloomSearchEngineConfig{BloomFalsePositiveRate: 0.01, RowDataCompression: CompressionNone,
		MaxRowGroupRows: lim(), MaxRowGroupBytes: lim(), MaxBufferedRows: lim(), MaxBufferedBytes: lim(), MaxBufferedTime: time.Hour}}
	b.logger = slog.New(slog.DiscardHandler)
	b.config.PartitionFunc = vpPartitionByP
	pre := vpPartitionBuffer("p")
	pre.rowCount, pre.uncompressedSize = nondetInt(), nondetInt()
	vpAssume(pre.rowCount >= 1 && pre.rowCount < b.config.MaxRowGroupRows && pre.uncompressedSize >= 1 && pre.uncompressedSize < b.config.MaxRowGroupBytes)
	rowCount, byteCount := nondetInt(), nondetInt()
	vpAssume(rowCount >= pre.rowCount && rowCount < b.config.MaxBufferedRows && byteCount >= pre.uncompressedSize && byteCount < b.config.MaxBufferedBytes)
	vpAssume(rowCount < 1<<40 && byteCount < 1<<40)
	bufs := map[string]*partitionBuffer{"p": pre}
	w0 := make(chan error, 2)
	waiters := []chan error{w0}
	started := time.Now()
	started0 := started
	n := 1 + nondetChoice(2)
	part := "p"
	if nondetBool() {
		part = "q"
	}
	rows := make([]map[string]any, n)
	for i := range rows {
		rows[i] = vpBatchRow(false, part)
	}
	spans := n == 2 && nondetBool() // the batch spans both partitions, in either order
	if spans {
		other := "q"
		if part == "q" {
			other = "p"
		}
		rows[1] = vpBatchRow(false, other)
	}
	d := make(chan error, 2)
	vpTriggered = nil
	preRows, preBytes := pre.rowCount, pre.uncompressedSize
	rowCountBefore, byteCountBefore := rowCount, byteCount
	b.processIngestRequest(context.Background(), &ingestRequest{rows: rows, doneChan: d}, bufs, &waiters, &rowCount, &byteCount, &started)
	vpAssert(len(d) == 0, "C06: a buffered batch was acknowledged by the ingest actor itself")
	vpAssert(len(vpTriggered) <= 1, "C07: one batch produced more than one flush request")
	if len(vpTriggered) == 1 {
		req := vpTriggered[0]
		vpAssert(len(req.doneChans) == 2 && req.doneChans[0] == w0 && req.doneChans[1] == d, "C05/C10: the flush request does not carry the buffered batches' waiters in order")
		vpAssert(req.partitionBuffers["p"] == pre && (part == "p" || req.partitionBuffers["q"] != nil), "C10: the flush request does not carry every buffered partition")
		vpAssert(len(bufs) == 0 && len(waiters) == 0 && rowCount == 0 && byteCount == 0 && started.IsZero(), "C10: the actor's buffer was not reset after the hand-off")
		return
	}
	// not handed to a flush: the batch is buffered and every limit is still ahead
	vpAssert(len(waiters) == 2 && waiters[1] == d, "C05: the accepted batch's waiter was not queued")
	vpAssert(!started.IsZero(), "C10: rows are buffered but the buffer clock is not running")
	vpAssert(started == started0, "C10: the buffer clock was restarted although older rows are still buffered (their MaxBufferedTime deadline moved)")
	pb := bufs[part]
	vpAssert(pb != nil, "C10: the accepted batch's partition has no buffer")
	added := byteCount - byteCountBefore
	vpAssert(rowCount == rowCountBefore+n && added >= n*LengthPrefixSize, "C10: buffered row/byte totals do not count the accepted batch")
	if spans {
		// one row went to each partition: every partition is still below its row-group limits
		for _, id := range []string{"p", "q"} {
			b2 := bufs[id]
			vpAssert(b2 != nil, "C10: a partition of the accepted batch has no buffer")
			vpAssert(b2.rowCount < b.config.MaxRowGroupRows, "C10: a partition reached MaxRowGroupRows but the buffer was not handed to a flush")
			vpAssert(b2.uncompressedSize < b.config.MaxRowGroupBytes, "C10: a partition reached MaxRowGroupBytes but the buffer was not handed to a flush")
		}
		vpAssert(bufs["p"].rowCount+bufs["q"].rowCount == preRows+2, "C10: the partitions' row counts do not count the accepted batch")
		vpAssert(rowCount < b.config.MaxBufferedRows && byteCount < b.config.MaxBufferedBytes, "C10: a buffer limit was reached but the buffer was not handed to a flush")
		return
	}
	if part == "p" {
		vpAssert(pb.rowCount == preRows+n && pb.uncompressedSize == preBytes+added, "C10: the partition's row/byte counts do not count the accepted batch")
	} else {
		vpAssert(pb.rowCount == n && pb.uncompressedSize == added && pre.rowCount == preRows && pre.uncompressedSize == preBytes, "C10: the partitions' row/byte counts do not count the accepted batch")
	}
	vpAssert(rowCount < b.config.MaxBufferedRows, "C10: MaxBufferedRows was reached but the buffer was not handed to a flush")
	vpAssert(byteCount < b.config.MaxBufferedBytes, "C10: MaxBufferedBytes was reached but the buffer was not handed to a flush")
	vpAssert(pb.rowCount < b.config.MaxRowGroupRows, "C10: a partition reached MaxRowGroupRows but the buffer was not handed to a flush")
	vpAssert(pb.uncompressedSize < b.config.MaxRowGroupBytes, "C10: a partition reached MaxRowGroupBytes but the buffer was not handed to a flush")
}

// The time limit: rows buffered below every size limit are flushed by the actor's ticker once
// MaxBufferedTime has passed, with no Flush, no Stop and no further ingest — also when a rejected
// or an empty batch arrived in between.
//
//vp:override (*bs.bloomEntrySets).indexRow=vpIndexRowNop
//vp:override (*bs.bloomEntrySets).buildFilters=vpBuildFiltersStub
//vp:override bs.encodeFilterSection=vpEncodeSectionStub
//vp:nowitness the executor steers the clock and the ticker (vpSetClock / vpTick); natively time passes on its own
//vp:maxsteps 300000
//vp:bounds started engine with all size limits far away; one good batch buffered while the clock reports no elapsed time, optionally followed by a rejected or an empty batch; then the clock reports a long elapsed time and the ticker fires 1..2 times; no store faults
func H_C10_ticker_flushes_buffered_rows_after_max_buffered_time() {
	w := vpNewWorld()
	w.failCreate, w.failWrite, w.failClose, w.failUpdate, w.failTombstone = false, false, false, false, false
	b := vpNewIngestSystem(w, vpSysCfg{ingestBuf: 2, maxBufferedRows: 1000, maxRowGroupRows: 1000, maxBufferedTime: time.Second})
	vpSetClock(2) // nothing has elapsed while the batches are accepted
	b.Start()
	good := vpSubmit(b, context.Background(), 0)
	vpAssert(good.accepted, "C05: IngestRows refused a batch on a running engine")
	var other *vpBatch
	switch nondetChoice(3) {
	case 1:
		other = vpSubmit(b, context.Background(), 2)
	case 2:
		other = vpSubmit(b, context.Background(), 1)
	}
	vpQuiesce()
	vpAssert(len(good.done) == 0 && w.createCalls == 0, "C10: rows below every limit were flushed before MaxBufferedTime")
	if other != nil {
		vpAssert(len(other.done) == 1, "C05: a rejected or empty batch was not answered on the spot")
	}
	vpSetClock(1) // MaxBufferedTime has long passed
	ticks := 1 + nondetChoice(2)
	for i := 0; i < ticks; i++ {
		vpTick()
		vpQuiesce()
	}
	vpAssert(len(good.done) == 1, "C10: buffered rows were not flushed although MaxBufferedTime has passed and the ticker fired")
	vpAssert(<-good.done == nil && w.count(evUpdateOK, -1) == 1, "C06: the time-triggered flush did not commit the rows it acknowledged")
	vpAssert(b.Stop(context.Background()) == nil, "C08: Stop returned an error")
}

// Every waiter of a flush is attempted exactly once, whatever happens to the ones before it: an
// abandoned unbuffered waiter under a cancelled context must not cost the waiters behind it their
// answer (sendToChannelsWithContext / sendOptionalWithContext / sendWithContext, and handleFlush
// entered after the shutdown deadline).
//
//vp:bounds 4 waiters: an abandoned unbuffered channel, a nil channel and buffered channels in any of 3 orders; context cancelled before the call, at any of its observations, or never (then no abandoned waiter); through sendToChannelsWithContext directly or through handleFlush entered with the cancelled context
func H_C05_every_waiter_of_a_flush_is_attempted_once() {
	ctx := &vpCancelCtx{may: true, done: make(chan struct{})}
	abandoned := make(chan error)
	b1, b2 := make(chan error, 2), make(chan error, 2)
	var ws []chan error
	switch nondetChoice(3) {
	case 0:
		ws = []chan error{abandoned, b1, nil, b2}
	case 1:
		ws = []chan error{b1, abandoned, b2, nil}
	default:
		ws = []chan error{nil, b1, b2, abandoned}
	}
	preCancelled := nondetBool()
	if preCancelled {
		ctx.canceled = true
		close(ctx.done)
	}
	viaFlush := preCancelled && nondetBool()
	vpBlockedOK() // a live context and an abandoned unbuffered waiter: delivery blocks (documented backpressure)
	if viaFlush {
		w := vpNewWorld()
		b := vpFlushEngine(w)
		b.handleFlush(ctx, flushRequest{partitionBuffers: map[string]*partitionBuffer{"p": vpPartitionBuffer("p")}, doneChans: ws})
		vpAssert(len(w.events) == 0, "C08: a flush entered after the shutdown deadline started store work")
		vpAssert(len(b1) == 1, "C05/C08: a waiter that can still receive got silence from an abandoned flush")
		v := <-b1
		b1 <- v
		vpAssert(v != nil, "C08: a waiter of an abandoned flush was acknowledged nil")
	} else {
		err := sendToChannelsWithContext[error](ctx, ws, nil)
		vpAssert(err != nil, "C05: delivery to an abandoned waiter under a cancelled context reported success")
	}
	vpAssert(len(b1) == 1 && len(b2) == 1, "C05: a waiter that can receive was not answered exactly once because delivery to another waiter failed")
	vpAssert(len(abandoned) == 0, "C05: an abandoned unbuffered waiter cannot have received")
}

// Callers blocked on a full ingest buffer give up with their own context's error, are not
// accepted (never answered, nothing queued on their behalf), and do not hold the state lock
// afterwards (Stop proceeds).
//
//vp:override (*bs.bloomEntrySets).indexRow=vpIndexRowNop
//vp:override (*bs.bloomEntrySets).buildFilters=vpBuildFiltersStub
//vp:override bs.encodeFilterSection=vpEncodeSectionStub
//vp:maxsteps 400000
//vp:bounds started engine, ingest buffer 1, MaxBufferedRows 1, store wedged in CreateFile, pipeline filled to the brim; one further IngestRows or Flush caller whose context is cancelled once everything has parked; then the store is released and the engine stopped
func H_C09_blocked_callers_give_up_with_their_context() {
	w := vpNewWorld()
	w.failCreate, w.failWrite, w.failClose, w.failUpdate, w.failTombstone = false, false, false, false, false
	w.wedge = make(chan struct{})
	b := vpNewIngestSystem(w, vpSysCfg{ingestBuf: 1, maxBufferedRows: 1, maxRowGroupRows: 1000, maxBufferedTime: time.Hour})
	vpSetClock(2)
	b.Start()
	var dones []chan error
	for i := 0; i < 4; i++ {
		d := make(chan error, 1)
		dones = append(dones, d)
		vpAssert(b.IngestRows(context.Background(), []map[string]any{vpBatchRow(false, "p")}, d) == nil, "C05: IngestRows refused a batch on a running engine")
		vpQuiesce()
	}
	vpAssert(len(b.ingestChan) == 1, "harness: the ingest buffer is not full")
	callerCtx := vpNewCtx(nil)
	useFlush := nondetBool()
	res := make(chan error, 1)
	d5 := make(chan error, 2)
	go func() {
		if useFlush {
			res <- b.Flush(callerCtx)
			return
		}
		res <- b.IngestRows(callerCtx, []map[string]any{vpBatchRow(false, "p")}, d5)
	}()
	vpQuiesce()
	vpAssert(len(res) == 0, "C09: a caller returned although the ingest buffer is full and its context is live")
	callerCtx.cancelWith(context.Canceled)
	err := <-res
	vpAssert(errors.Is(err, context.Canceled), "C09: a caller blocked on the full ingest buffer did not give up with its context's error")
	vpAssert(len(b.ingestChan) == 1, "C05: a caller that gave up left a request queued")
	close(w.wedge)
	vpAssert(b.Stop(context.Background()) == nil, "C08: Stop returned an error (a caller that gave up must not keep the state lock)")
	vpAssert(len(d5) == 0, "C05: a batch that was not accepted received an answer")
	for _, d := range dones {
		vpAssert(len(d) == 1, "C05: an accepted batch was not answered exactly once")
	}
}

// C08's first clause under races: a caller that is anywhere inside IngestRows / Flush when Stop
// begins is either refused or accepted-and-answered; an accepted Flush stranded behind a finished
// Stop shows as a deadlock of this harness (the harness body is shared with C05).
//
//vp:override (*bs.bloomEntrySets).indexRow=vpIndexRowNop
//vp:override (*bs.bloomEntrySets).buildFilters=vpBuildFiltersStub
//vp:override bs.encodeFilterSection=vpEncodeSectionStub
//vp:preempt 1
//vp:maxsteps 300000
//vp:bounds as H_C05_caller_racing_with_stop_is_refused_or_answered
func H_C08_caller_racing_with_stop_is_refused_or_answered() { vpCallerRacingWithStop() }
