package bloomsearch

import (
	"context"
	"errors"
	"time"
)

// ---------------------------------------------------------------------------------------------
// The ingest side as a closed system: the real NewBloomSearchEngine / Start / IngestRows / Flush /
// Stop / ingestWorker / processIngestRequest / flushBufferedData / triggerFlush / flushWorker /
// handleFlush / abortFileWriter / WriteFileFooter / send helpers run as goroutines of the
// executor (callers, the ingest actor, the flush worker, Stop's waiter, the AfterFunc goroutine)
// against fault-injecting stub stores. Used by C05, C07, C08, C09, C10.
// ---------------------------------------------------------------------------------------------

var vpTickers []chan time.Time

// time.NewTicker (harness Go model): a ticker fires only when the harness says so (vpTick), which
// makes "the ticker may fire at any of these points" an explicit choice of the harness.
func vpModel_time_NewTicker(d time.Duration) *time.Ticker {
	ch := make(chan time.Time, 1)
	vpTickers = append(vpTickers, ch)
	return &time.Ticker{C: ch}
}

// vpTick makes every model ticker fire once (natively the real tickers fire on their own).
func vpTick() {
	for _, ch := range vpTickers {
		select {
		case ch <- time.Time{}:
		default:
		}
	}
}

type vpSysCfg struct {
	ingestBuf       int
	maxBufferedRows int
	maxRowGroupRows int
	maxBufferedTime time.Duration
}

func vpNewIngestSystem(w *vpWorld, c vpSysCfg) *BloomSearchEngine {
	vpTickers = nil
	cfg := BloomSearchEngineConfig{
		Tokenizer: BasicWhitespaceLowerTokenizer, MaxRowGroupRows: c.maxRowGroupRows, MaxRowGroupBytes: 1 << 20,
		MaxFileSize: 1 << 30, MaxBufferedRows: c.maxBufferedRows, MaxBufferedBytes: 1 << 20, MaxBufferedTime: c.maxBufferedTime,
		IngestBufferSize: c.ingestBuf, BloomFalsePositiveRate: 0.01, MaxQueryConcurrency: 1, MaxFilesToMergePerOperation: 2,
		RowDataCompression: CompressionNone,
	}
	b, err := NewBloomSearchEngine(cfg, &vpMeta{w}, &vpStore{w})
	vpAssert(err == nil && b != nil, "C09: NewBloomSearchEngine rejected a valid configuration")
	return b
}

type vpBatch struct {
	kind     int // 0 good row, 1 empty batch, 2 unmarshalable row
	done     chan error
	accepted bool
}

func vpSubmit(b *BloomSearchEngine, ctx context.Context, kind int) *vpBatch {
	bt := &vpBatch{kind: kind, done: make(chan error, 2)}
	var rows []map[string]any
	switch kind {
	case 0:
		rows = []map[string]any{vpBatchRow(false, "p")}
	case 2:
		rows = []map[string]any{vpBatchRow(true, "p")}
	}
	bt.accepted = b.IngestRows(ctx, rows, bt.done) == nil
	return bt
}

// vpCheckAnswered: exactly one answer, of the right kind.
func vpCheckAnswered(w *vpWorld, bt *vpBatch) {
	if !bt.accepted {
		vpAssert(len(bt.done) == 0, "C05: a batch that was not accepted received an answer")
		return
	}
	vpAssert(len(bt.done) >= 1, "C05: an accepted batch was never answered although Stop returned nil")
	vpAssert(len(bt.done) == 1, "C05: an accepted batch was answered twice")
	err := <-bt.done
	switch bt.kind {
	case 1:
		vpAssert(err == nil, "C05: an empty batch was answered with an error")
	case 2:
		vpAssert(err != nil, "C06: a batch with an unmarshalable row was acknowledged nil")
	default:
		if err == nil {
			vpAssert(w.count(evUpdateOK, -1) >= 1, "C06: nil acknowledged although nothing was ever committed to the MetaStore")
		}
	}
}

// Lifecycle histories: batches accepted before Start, empty and rejected batches, Flush, store
// faults at any call, then a graceful Stop.
//
//vp:override (*bs.bloomEntrySets).indexRow=vpIndexRowNop
//vp:override (*bs.bloomEntrySets).buildFilters=vpBuildFiltersStub
//vp:override bs.encodeFilterSection=vpEncodeSectionStub
//vp:maxsteps 300000
//vp:bounds ingest buffer 2 (thorough 1..2), MaxBufferedRows 1..2; a history of up to 3 calls drawn from IngestRows(good row | empty batch | unmarshalable row) and Flush, Start landing before any of them or after all (batches accepted before Start); CreateFile and MetaStore.Update fail or succeed arbitrarily at every call; then Stop(background); goroutines run to their next blocking point
func H_C05_lifecycle_histories_answer_every_accepted_batch_once() {
	w := vpNewWorld()
	// one flush's fault paths are C06's subject; here a flush fails at CreateFile or at the commit, or not at all
	w.failWrite, w.failClose, w.failTombstone = false, false, false
	c := vpSysCfg{ingestBuf: vpBound(2, 1+nondetChoice(2)), maxBufferedRows: 1 + nondetChoice(2), maxRowGroupRows: 1000, maxBufferedTime: time.Hour}
	b := vpNewIngestSystem(w, c)
	vpSetClock(2)
	nOps := 1 + nondetChoice(3)
	startAt := nondetChoice(nOps + 1)
	var batches []*vpBatch
	started := false
	queuedBeforeStart := 0
	for i := 0; i < nOps; i++ {
		if i == startAt {
			b.Start()
			started = true
		}
		kind := nondetChoice(4)
		if kind == 3 {
			vpAssume(started) // Flush on an engine that was never started waits for its Start
			ferr := b.Flush(context.Background())
			// Flush is a durability barrier: everything accepted before it has been answered
			for _, bt := range batches {
				vpAssert(!bt.accepted || len(bt.done) == 1, "C07: Flush returned before an earlier accepted batch was answered")
			}
			if ferr == nil {
				for _, bt := range batches {
					if bt.accepted && bt.kind == 0 && len(bt.done) == 1 {
						// peek without consuming: re-queue the value
						v := <-bt.done
						bt.done <- v
						_ = v
					}
				}
			}
			continue
		}
		if !started {
			vpAssume(queuedBeforeStart < c.ingestBuf) // a full buffer before Start makes IngestRows wait for Start
			queuedBeforeStart++
		}
		batches = append(batches, vpSubmit(b, context.Background(), kind))
	}
	if !started && startAt == nOps && nondetBool() {
		b.Start()
		started = true
	}
	serr := b.Stop(context.Background())
	vpAssert(serr == nil, "C08: Stop without a deadline returned an error")
	for _, bt := range batches {
		vpCheckAnswered(w, bt)
	}
	// once Stop has begun, new work is refused and nothing is queued
	late := vpSubmit(b, context.Background(), 0)
	vpAssert(!late.accepted && len(late.done) == 0, "C08: IngestRows accepted a batch after Stop")
	vpAssert(errors.Is(b.Flush(context.Background()), ErrEngineStopped), "C08: Flush after Stop did not return ErrEngineStopped")
	vpAssert(len(b.ingestChan) == 0 && len(b.flushChan) == 0, "C05: requests were left queued after a graceful Stop")
}
