package bloomsearch

import (
	"context"
	"errors"
	"io"
	"log/slog"
	"time"

	"github.com/bits-and-blooms/bloom/v3"
)

// ---------------------------------------------------------------------------------------------
// C24 — pruning is effective: disqualified data is never read.
//   (1) the filter cursor only reads inside the file's block filter region, every chunk starts
//       at the section of the block being consulted and never exceeds the chunk cap unless that
//       one section does;
//   (2) the filter pass never hands on a block whose own filters were not consulted (when it has
//       a section and the query has bloom conditions) or ruled it out, and reads nothing at all
//       for a query without bloom conditions or a file without sections;
//   (3) the real Query pipeline (file stage, file workers, block workers, teardown — all its
//       goroutines) never opens a file whose file-level filters rule the query out, never scans a
//       block its prefilter or its block filters rule out, and scans every surviving block once.
// ---------------------------------------------------------------------------------------------

func vpParseSectionStub(section []byte) (*BloomFilters, error) {
	if nondetBool() {
		return nil, errors.New("malformed section")
	}
	return &BloomFilters{}, nil
}

//vp:override bs.getScanBuffer=vpGetScanBuffer
//vp:override bs.putScanBuffer=vpPutScanBuffer
//vp:override bs.parseFilterSection=vpParseSectionStub
//vp:bounds 2 blocks with unconstrained 64-bit filter offsets/sizes and region, accepted by planBlockFilterReads; file of arbitrary size (< 2^40) and content; any subsequence of blocks consulted in order; each section parses or is malformed
func HS_C24_filter_cursor_reads_stay_inside_the_region() { vpCursorBody(2, 0) }

// thorough tier: 3 blocks, two fixed consultation patterns run as two parallel harnesses — all three
// in order, and the first and third with the second skipped (a gap left by a prefilter). All eight
// subsequences of three blocks (measured: 65 minutes on a loaded image, the solver answering
// about one query per second) are not part of the registered bound; every subsequence of two
// blocks is the quick harness.
//
//vp:override bs.getScanBuffer=vpGetScanBuffer
//vp:override bs.putScanBuffer=vpPutScanBuffer
//vp:override bs.parseFilterSection=vpParseSectionStub
//vp:thorough
//vp:nocross
//vp:bounds 3 blocks, all three consulted in order; otherwise as HS_C24_filter_cursor_reads_stay_inside_the_region
func HS_C24_filter_cursor_three_blocks_all_consulted() { vpCursorBody(3, 1) }

//vp:override bs.getScanBuffer=vpGetScanBuffer
//vp:override bs.putScanBuffer=vpPutScanBuffer
//vp:override bs.parseFilterSection=vpParseSectionStub
//vp:thorough
//vp:nocross
//vp:bounds 3 blocks, the first and the third consulted, the second skipped; otherwise as HS_C24_filter_cursor_reads_stay_inside_the_region
func HS_C24_filter_cursor_three_blocks_gap_skipped() { vpCursorBody(3, 2) }

// pattern: 0 = any subsequence (each block consulted or not, symbolic), 1 = every block consulted,
// 2 = every block but the second consulted
func vpCursorBody(n int, first int) {
	f := vpNewSymFile()
	blocks := make([]DataBlockMetadata, n)
	for i := range blocks {
		blocks[i] = DataBlockMetadata{RowDataOffset: i, BloomFilterOffset: nondetInt(), BloomFilterSize: nondetInt()}
	}
	regionStart, regionEnd, hasSections, err := planBlockFilterReads(blocks, nondetInt(), nondetInt())
	vpAssume(err == nil)
	// the region of metadata that passed ReadFileMetadata/validate lies inside the file (C19)
	vpAssume(regionEnd <= int64(len(f.data)))
	if !hasSections {
		for i := range blocks {
			vpAssert(blocks[i].BloomFilterSize == 0, "C24: planBlockFilterReads reports no sections although a block has one")
		}
	}
	c := blockFilterCursor{file: f, blocks: blocks, regionStart: regionStart, regionEnd: regionEnd}
	for i := range blocks {
		consult := true
		switch first {
		case 0:
			consult = nondetBool()
		case 2:
			consult = i != 1
		}
		if !consult {
			continue
		}
		before := len(f.log)
		_, _, readFailed, err := c.filtersFor(i)
		sOff, sSize := int64(blocks[i].BloomFilterOffset), int64(blocks[i].BloomFilterSize)
		if sSize == 0 {
			vpAssert(len(f.log) == before && err == nil, "C24: a block without a filter section caused a read or an error")
		}
		for _, e := range f.log[before:] {
			vpAssert(e.off >= regionStart && e.n <= regionEnd-e.off, "C24: the filter cursor read outside the block filter region")
			vpAssert(e.off >= sOff, "C24: a filter chunk starts before the section of the block being consulted")
		}
		if len(f.log) > before {
			first, last := f.log[before], f.log[len(f.log)-1]
			vpAssert(first.off == sOff, "C24: a filter chunk does not start at the section of the block being consulted")
			total := last.off + last.n - first.off
			vpAssert(total <= blockFilterChunkTarget || total <= sSize, "C24: a filter chunk exceeds the chunk cap although no single section does")
			if err == nil {
				vpAssert(total >= sSize, "C01/C24: filters were decoded although the chunk does not cover the block's section")
			}
		}
		if readFailed {
			return
		}
	}
}

var (
	vpVerdicts   []bool // verdict of each evaluateBloomFilters call, in call order
	vpConsulted  []int  // block index of each successfully consulted section, in order
	vpFileMarker []*bloom.BloomFilter
)

// The block is identified by its row data (RowDataOffset = 100 * its index in the caller's
// slice), not by the cursor's own numbering: the survivors' indexes are used by the caller against
// ITS slice, so a filter pass that renumbers its blocks must still hand on the right ones.
func vpFiltersForOK(c *blockFilterCursor, i int) (*BloomFilters, time.Duration, bool, error) {
	i = c.blocks[i].RowDataOffset / 100
	vpFilterReads = append(vpFilterReads, i)
	switch nondetChoice(3) {
	case 1:
		return nil, 0, false, errors.New("malformed filter section")
	case 2:
		return nil, 0, true, errors.New("read failed")
	}
	vpConsulted = append(vpConsulted, i)
	return &BloomFilters{}, 0, false, nil
}

func vpVerdictStub(b *BloomSearchEngine, f, t, ft *bloom.BloomFilter, q *BloomQuery) bool {
	v := nondetBool()
	vpVerdicts = append(vpVerdicts, v)
	return v
}

//vp:override (*bs.blockFilterCursor).filtersFor=vpFiltersForOK
//vp:override (*bs.BloomSearchEngine).evaluateBloomFilters=vpVerdictStub
//vp:override (*bs.blockFilterCursor).release=vpCursorReleaseNop
//vp:bounds 1..3 blocks with symbolic filter-section sizes (>= 0) inside a symbolic region; bloom query present or absent; open, each section read/parse and each verdict arbitrary; cancellation at any context observation or never
func H_C24_filter_pass_hands_on_only_blocks_its_filters_allow() {
	n := 1 + nondetChoice(3)
	w := vpNewWorld()
	w.openMaySucceed = true
	ctx := &vpCancelCtx{may: nondetBool(), done: make(chan struct{})}
	r := &Results{ctx: ctx, callerCtx: ctx}
	slot := &querySlot{sem: make(chan struct{}, 1), ctx: ctx}
	pool := newFileHandlePool(&vpStore{w})
	ptr := vpPointer(0)
	pool.retain(ptr)
	blocks := make([]DataBlockMetadata, n)
	for i := range blocks {
		blocks[i] = DataBlockMetadata{RowDataOffset: 100 * i, RowDataSize: 100, BloomFilterOffset: nondetInt(), BloomFilterSize: nondetInt()}
	}
	job := fileFilterJob{filePointer: ptr, filterRegionOffset: nondetInt(), filterRegionSize: nondetInt(), blocks: blocks}
	var q *BloomQuery
	if nondetBool() {
		q = &BloomQuery{Expression: &BloomExpression{}}
	}
	vpFilterReads, vpVerdicts, vpConsulted = nil, nil, nil
	b := &BloomSearchEngine{}
	out := b.evaluateBlockFilters(r, slot, pool, job, blocks, q, nil)
	if q == nil {
		vpAssert(len(w.events) == 0 && len(vpFilterReads) == 0, "C24: a query without bloom conditions opened the file or read filter sections")
		return
	}
	anySection := false
	for i := range blocks {
		if blocks[i].BloomFilterSize > 0 {
			anySection = true
		}
	}
	_, _, _, perr := planBlockFilterReads(blocks, job.filterRegionOffset, job.filterRegionSize)
	if perr == nil && !anySection {
		vpAssert(len(w.events) == 0 && len(vpFilterReads) == 0, "C24: a file without filter sections was opened")
		vpAssert(len(out) == n || ctx.canceled, "C01: the blocks of a file without filter sections were not all handed on")
		return
	}
	// a block handed on for a scan was consulted and allowed by its filters
	for _, c := range out {
		k := -1
		for j, bi := range vpConsulted {
			if bi == c.index {
				k = j
			}
		}
		vpAssert(k >= 0, "C24: a block was handed on for a scan although its filter section was never consulted")
		vpAssert(k < len(vpVerdicts) && vpVerdicts[k], "C24: a block its own filters rule out was handed on for a scan")
	}
	// each block is consulted at most once
	for i := 0; i < n; i++ {
		cnt := 0
		for _, bi := range vpFilterReads {
			if bi == i {
				cnt++
			}
		}
		vpAssert(cnt <= 1, "C24: a block's filter section was consulted twice")
	}
}

// ---- the real Query pipeline, all goroutines, against stub stores ----

type vpQueryWorld struct {
	fileVerdict  []bool   // file-level filter verdict per file
	blockVerdict [][]bool // block-level verdict per file and block
	scanned      [][]int  // processDataBlock calls per file and block
	opened       []int
}

var vpQW *vpQueryWorld

// evaluateBloomFilters stand-in for the Query run: the file-level call is recognised by the
// marker filter stored in the file's metadata, a block-level call by the marker the filtersFor
// stand-in returned for that block.
func vpQueryVerdictStub(b *BloomSearchEngine, f, t, ft *bloom.BloomFilter, q *BloomQuery) bool {
	for i, m := range vpFileMarker {
		if f == m {
			return vpQW.fileVerdict[i]
		}
	}
	for i := range vpBlockMarker {
		for j, m := range vpBlockMarker[i] {
			if f == m {
				return vpQW.blockVerdict[i][j]
			}
		}
	}
	vpAssert(false, "harness: verdict asked for unknown filters")
	return true
}

var vpBlockMarker [][]*bloom.BloomFilter

func vpQueryFiltersFor(c *blockFilterCursor, i int) (*BloomFilters, time.Duration, bool, error) {
	fid := c.file.(*vpReader).id - vpSrcBase
	j := c.blocks[i].RowDataOffset / 100
	return &BloomFilters{FieldBloomFilter: vpBlockMarker[fid][j]}, 0, false, nil
}

func vpQueryScanStub(b *BloomSearchEngine, r *Results, slot *querySlot, handles *fileHandlePool, job dataBlockJob, m *compiledRowMatcher, scratch *rowMatchScratch) {
	fid := vpFileID(job.filePointer) - vpSrcBase
	vpQW.scanned[fid][job.blockMetadata.RowDataOffset/100]++
	vpAssert(slot.held, "C22: a block scan started without a query slot")
	h, err := handles.acquire(r.ctx, job.filePointer)
	if err != nil {
		return
	}
	if nondetBool() {
		handles.discard(h)
		return
	}
	handles.put(job.filePointer, h)
}

func vpQueryEngine(w *vpWorld, conc int) *BloomSearchEngine {
	b := &BloomSearchEngine{config: BloomSearchEngineConfig{MaxQueryConcurrency: conc, Tokenizer: BasicWhitespaceLowerTokenizer},
		metaStore: &vpMeta{w}, dataStore: &vpStore{w}, querySemaphore: make(chan struct{}, conc)}
	return b
}

// vpQuerySetup: nFiles files of nBlocks blocks; partition "p" or "q" per block (symbolic), every
// block has a filter section inside the region.
func vpQuerySetup(w *vpWorld, nFiles, nBlocks int) {
	vpQW = &vpQueryWorld{}
	vpFileMarker, vpBlockMarker = nil, nil
	// the format does not tie the order of the filter sections to the order of the row data
	reversed := nBlocks > 1 && nondetBool()
	for i := 0; i < nFiles; i++ {
		fm := new(bloom.BloomFilter)
		vpFileMarker = append(vpFileMarker, fm)
		md := FileMetadata{BloomFilters: BloomFilters{FieldBloomFilter: fm}, BlockFilterRegionOffset: 1000, BlockFilterRegionSize: 100}
		var bm []*bloom.BloomFilter
		var bv []bool
		for j := 0; j < nBlocks; j++ {
			part := "p"
			if nondetBool() {
				part = "q"
			}
			fo := 1000 + 10*j
			if reversed {
				fo = 1000 + 10*(nBlocks-1-j)
			}
			md.DataBlocks = append(md.DataBlocks, DataBlockMetadata{RowDataOffset: 100 * j, RowDataSize: 100, BloomFilterOffset: fo, BloomFilterSize: 10, PartitionID: part, Rows: 1})
			bm = append(bm, new(bloom.BloomFilter))
			bv = append(bv, nondetBool())
		}
		vpBlockMarker = append(vpBlockMarker, bm)
		vpQW.blockVerdict = append(vpQW.blockVerdict, bv)
		vpQW.fileVerdict = append(vpQW.fileVerdict, nondetBool())
		vpQW.scanned = append(vpQW.scanned, make([]int, nBlocks))
		w.files = append(w.files, MaybeFile{PointerBytes: vpSrcPointer(i), Metadata: md})
	}
}

//vp:override (*bs.BloomSearchEngine).evaluateBloomFilters=vpQueryVerdictStub
//vp:override (*bs.blockFilterCursor).filtersFor=vpQueryFiltersFor
//vp:override (*bs.blockFilterCursor).release=vpCursorReleaseNop
//vp:override (*bs.BloomSearchEngine).processDataBlock=vpQueryScanStub
//vp:bounds the real Query with all its goroutines, MaxQueryConcurrency 1 or 2, 1..2 files x 1..2 blocks (quick tier: not 2x2), each block in partition p or q, filter sections in row-data order or reversed, query = Field condition with or without a partition prefilter, file-level and block-level verdicts arbitrary, each scan's read succeeding or failing; threads run to their next blocking point (no forced switches)
func H_C24_query_reads_only_what_survives() {
	w := vpNewWorld()
	w.openMaySucceed = true
	nFiles := 1 + nondetChoice(2)
	nBlocks := 1 + nondetChoice(2)
	vpAssume(vpThorough() || nFiles+nBlocks <= 3) // quick tier: 1x1, 1x2, 2x1
	vpQuerySetup(w, nFiles, nBlocks)
	b := vpQueryEngine(w, 1+nondetChoice(2))
	qb := NewQuery().Field("f")
	pref := nondetBool()
	if pref {
		qb = qb.MatchPrefilter(Partition(PartitionEquals("p")))
	}
	r, err := b.Query(context.Background(), qb.Build())
	vpAssert(err == nil && r != nil, "C20: Query failed on a valid query")
	for r.Next() {
	}
	vpAssert(r.Err() == nil || len(r.errs) > 0, "C20: Err without a recorded failure")
	for i := 0; i < nFiles; i++ {
		opens := w.count(evOpen, vpSrcBase+i)
		anyCandidate := false
		for j := 0; j < nBlocks; j++ {
			cand := !pref || w.files[i].Metadata.DataBlocks[j].PartitionID == "p"
			if cand {
				anyCandidate = true
			}
			want := 0
			if cand && vpQW.fileVerdict[i] && vpQW.blockVerdict[i][j] {
				want = 1
			}
			if w.count(evOpenFail, vpSrcBase+i) > 0 {
				continue // the file could not be opened for its filter pass: its blocks are accounted as unread (C23)
			}
			vpAssert(vpQW.scanned[i][j] <= want, "C24: a block ruled out by its prefilter, its file's filters or its own filters was scanned")
			vpAssert(vpQW.scanned[i][j] == want, "C01: a block that survives every filter was not scanned exactly once")
		}
		if !anyCandidate || !vpQW.fileVerdict[i] {
			vpAssert(opens == 0, "C24: a file ruled out by its prefilter or its file-level filters was opened")
		}
	}
	// C21: every handle opened by the query is closed exactly once when Next has returned false
	vpAssert(w.count(evReadClose, -1) == w.count(evOpenOK, -1), "C21: a handle opened by the query was not closed exactly once by the time Next returned false")
	vpAssert(len(b.querySemaphore) == 0, "C21/C22: the query concurrency budget is not fully available after the query ended")
}

var _ = io.EOF

// vpQuerySetupFixed: as vpQuerySetup with every verdict true and every block in partition p.
func vpQuerySetupFixed(w *vpWorld, nFiles, nBlocks int) {
	vpQW = &vpQueryWorld{}
	vpFileMarker, vpBlockMarker = nil, nil
	for i := 0; i < nFiles; i++ {
		fm := new(bloom.BloomFilter)
		vpFileMarker = append(vpFileMarker, fm)
		md := FileMetadata{BloomFilters: BloomFilters{FieldBloomFilter: fm}, BlockFilterRegionOffset: 1000, BlockFilterRegionSize: 100}
		var bm []*bloom.BloomFilter
		var bv []bool
		for j := 0; j < nBlocks; j++ {
			md.DataBlocks = append(md.DataBlocks, DataBlockMetadata{RowDataOffset: 100 * j, RowDataSize: 100, BloomFilterOffset: 1000 + 10*j, BloomFilterSize: 10, PartitionID: "p", Rows: 1})
			bm = append(bm, new(bloom.BloomFilter))
			bv = append(bv, true)
		}
		vpBlockMarker = append(vpBlockMarker, bm)
		vpQW.blockVerdict = append(vpQW.blockVerdict, bv)
		vpQW.fileVerdict = append(vpQW.fileVerdict, true)
		vpQW.scanned = append(vpQW.scanned, make([]int, nBlocks))
		w.files = append(w.files, MaybeFile{PointerBytes: vpSrcPointer(i), Metadata: md})
	}
}

func vpReadRowDataOK(file io.ReadSeeker, block *DataBlockMetadata) ([]byte, func(), error) {
	return vpScanData, func() {}, nil
}
func vpMatchAll(m *compiledRowMatcher, rowBytes []byte, scratch *rowMatchScratch) bool { return true }
func vpMaterializeOK(rowBytes []byte) (map[string]any, error)                           { return map[string]any{}, nil }

// ---- (4) what "its filters rule the query out" means: the pruning evaluator is exact on the
// filters' own answers. For every tree over Field / Token / Field:Token leaves, evaluateBloomFilters
// equals the nested boolean combination of the three filters' TestString answers (an absent filter
// cannot disqualify): a block is scanned only if that combination is true, so a leaf whose filter
// answers "absent" is never silently treated as "maybe" (C24), and never the other way round (C01).

type vpLeafFilters struct {
	field, token, fieldToken *bloom.BloomFilter
	n                        int
}

func vpAnyLeaf(c *vpLeafFilters) (BloomExpression, bool) {
	name := vpLeafName(c.n)
	c.n++
	ans := nondetBool()
	switch nondetChoice(3) {
	case 0:
		if c.field == nil {
			return Field(name), true
		}
		vpBloomSet(c.field, name, ans)
		return Field(name), ans
	case 1:
		if c.token == nil {
			return Token(name), true
		}
		vpBloomSet(c.token, name, ans)
		return Token(name), ans
	}
	if c.fieldToken == nil {
		return FieldToken(name, "t"), true
	}
	vpBloomSet(c.fieldToken, makeFieldTokenKey(name, "t"), ans)
	return FieldToken(name, "t"), ans
}

func vpAnyTree(c *vpLeafFilters, depth int) (BloomExpression, bool) {
	if depth == 0 || nondetBool() {
		return vpAnyLeaf(c)
	}
	n := 1 + nondetChoice(2)
	isAnd := nondetBool()
	var kids []BloomExpression
	truth := isAnd
	for i := 0; i < n; i++ {
		k, t := vpAnyTree(c, depth-1)
		kids = append(kids, k)
		if isAnd {
			truth = vpAnd(truth, t)
		} else {
			truth = vpOr(truth, t)
		}
	}
	if isAnd {
		return And(kids...), truth
	}
	return Or(kids...), truth
}

//vp:bounds bloom trees of depth <= 1 (thorough 2) with 1..2 children per inner node over Field / Token / Field:Token leaves; each of the three filters present or absent; every filter answer arbitrary
//vp:maxpaths 600000
func H_C24_a_block_is_kept_exactly_when_its_filters_admit_the_query() {
	c := &vpLeafFilters{}
	if nondetBool() {
		c.field = vpNewBloom()
	}
	if nondetBool() {
		c.token = vpNewBloom()
	}
	if nondetBool() {
		c.fieldToken = vpNewBloom()
	}
	tree, truth := vpAnyTree(c, vpBound(1, 2))
	q := &BloomQuery{Expression: &tree}
	b := &BloomSearchEngine{logger: slog.New(slog.DiscardHandler)}
	got := b.evaluateBloomFilters(c.field, c.token, c.fieldToken, q)
	if truth {
		vpAssert(got, "C01: the filters admit the query but the evaluator prunes the block")
	} else {
		vpAssert(!got, "C24: the block's filters rule the query out but the evaluator keeps the block (its row data will be read)")
	}
}
