package bloomsearch

import (
	"strconv"

	"github.com/tidwall/gjson"
)

// ---------------------------------------------------------------------------------------------
// Abstract JSON rows. Under the executor a row is a tree of vpNode values with symbolic keys and
// leaf texts; gjson.Parse / ParseBytes / ForEach over the row's bytes are modelled on the tree
// (engine/models_json.go), so the real path walker, row matcher and indexer run on it. Natively
// the same tree is rendered to JSON text and the real gjson parser is used.
// ---------------------------------------------------------------------------------------------

type vpNode struct {
	Key  string
	Kind int // 0 leaf, 1 object, 2 array
	Type gjson.Type
	Text string // leaf: the string value, or the literal text of a number
	Kids []*vpNode
}

func vpRenderJSON(n *vpNode) string {
	switch n.Kind {
	case 1:
		s := "{"
		for i, k := range n.Kids {
			if i > 0 {
				s += ","
			}
			s += strconv.Quote(k.Key) + ":" + vpRenderJSON(k)
		}
		return s + "}"
	case 2:
		s := "["
		for i, k := range n.Kids {
			if i > 0 {
				s += ","
			}
			s += vpRenderJSON(k)
		}
		return s + "]"
	}
	switch n.Type {
	case gjson.String:
		return strconv.Quote(n.Text)
	case gjson.Number:
		return n.Text
	case gjson.True:
		return "true"
	case gjson.False:
		return "false"
	}
	return "null"
}

// vpToGJSON: the parsed form of the row (intercepted by the executor).
func vpToGJSON(n *vpNode) gjson.Result { return gjson.Parse(vpRenderJSON(n)) }

// vpRowBytes: the row's stored bytes (intercepted by the executor: content opaque, tied to n).
func vpRowBytes(n *vpNode) []byte { return []byte(vpRenderJSON(n)) }

// vpParseSawView: has gjson.Parse been handed an unsafe view of a buffer since the last reset
// (executor only; natively unknown: false).
func vpParseSawView(keep bool) bool { return false }

// vpKey: a key or path segment of 0..max bytes drawn from printable ASCII without the two
// characters JSON must escape (so that the native rendering is the same text).
func vpKey(max int) string {
	s := nondetString(max)
	for i := 0; i < len(s); i++ {
		vpAssume(s[i] >= 0x20 && s[i] < 0x7f && s[i] != '"' && s[i] != '\\')
	}
	return s
}

func vpStrLeaf(key, text string) *vpNode {
	return &vpNode{Key: key, Kind: 0, Type: gjson.String, Text: text}
}

// vpSmallRow: an object with one string leaf, or a non-object value.
func vpSmallRow() *vpNode {
	if nondetBool() {
		return &vpNode{Kind: 0, Type: gjson.Number, Text: "1"}
	}
	return &vpNode{Kind: 1, Kids: []*vpNode{vpStrLeaf("a", "x")}}
}
