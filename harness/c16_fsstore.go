package bloomsearch

import (
	"context"
	"io"
	"os"
)

// ---------------------------------------------------------------------------------------------
// C16 — FileSystemDataStore behaves like its specification: every sequence of CreateFile, Write,
// Close, Abort, TombstoneFile and OpenFile calls over two writers with forced name collisions, run
// on the real store code over the directory model of vpfs.go (natively: a real temp directory).
// ---------------------------------------------------------------------------------------------

type vpFSWriter struct {
	w         io.WriteCloser
	ptr       []byte
	payload   []byte // what was written through this writer
	closedOK  bool   // Close returned nil
	finished  bool   // Close or Abort was called
	tombstone bool   // its pointer was tombstoned
	written   bool   // the complete image was written before Close
}

func vpValidImage(tag byte) []byte {
	// a minimal complete bloom file: no blocks, empty region, footer written by the real WriteFileFooter
	w := &vpImgWriter{s: &vpImgStore{files: map[int][]byte{}}}
	w.Write([]byte{tag})
	md := &FileMetadata{DataBlocks: []DataBlockMetadata{{RowDataOffset: 0, RowDataSize: 1, Rows: 0, Compression: CompressionNone}}, BlockFilterRegionOffset: 1}
	if err := WriteFileFooter(w, md); err != nil {
		panic(err)
	}
	return w.buf
}

func vpDirNames(root string) []string {
	es, err := os.ReadDir(root)
	if err != nil {
		return nil
	}
	var out []string
	for _, e := range es {
		out = append(out, e.Name())
	}
	return out
}

func vpHasName(names []string, n string) bool {
	for _, x := range names {
		if x == n {
			return true
		}
	}
	return false
}

//vp:override bs.encodeFilterSection=vpEncodeSectionConst
//vp:override bs.parseFilterSection=vpParseSectionOK
//vp:maxpaths 600000
//vp:maxsteps 600000
//vp:bounds histories of up to 6 (thorough 7) calls over two writers A and B: CreateFile (file-name draws forced from {x, y, x-again}: collisions with reservations, temp files and published files), Write of a complete file image (A and B write different payloads), Close, Abort, TombstoneFile of either pointer, at any point; then a directory scan and OpenFile of every listed pointer
func H_C16_any_call_sequence_lists_exactly_the_published_files() { vpFSHistories(false) }

func vpFSHistories(faults bool) {
	root := vpFSRoot()
	if vpSymbolic() {
		vpNewFS()
	}
	draws := 0
	store := &FileSystemDataStore{rootDir: root}
	store.drawFileName = func() string {
		draws++
		vpAssume(draws <= 4)
		if nondetBool() {
			return "x"
		}
		return "y"
	}
	ctx := context.Background()
	ws := []*vpFSWriter{{payload: vpValidImage('A')}, {payload: vpValidImage('B')}}
	// reference model: what each final path publishes — the bytes of the last writer whose Close
	// succeeded on it, until the path is tombstoned
	ref := map[string][]byte{}
	steps := vpBound(6, 7)
	if faults {
		steps = 5
	}
	for s := 0; s < steps; s++ {
		i := nondetChoice(2)
		w := ws[i]
		switch nondetChoice(5) {
		case 0: // CreateFile
			vpAssume(w.w == nil)
			before := vpDirNames(root)
			wr, ptr, err := store.CreateFile(ctx)
			vpAssert(err == nil && wr != nil, "C16: CreateFile failed although unused names remain")
			w.w, w.ptr = wr, ptr
			name := string(ptr)[len(root)+1:]
			vpAssert(!vpHasName(before, name), "C16: CreateFile handed out a final path that already existed (it would overwrite or expose another file)")
			o := ws[1-i]
			if o.ptr != nil {
				gone := o.tombstone || (o.finished && !o.closedOK && !vpHasName(before, name)) // tombstoned, or aborted without publishing
				vpAssert(string(o.ptr) != string(ptr) || gone, "C16: two live writers were given the same file pointer")
			}
		case 1: // Write (once, the whole image)
			vpAssume(w.w != nil && !w.finished)
			vpAssume(!w.written)
			n, err := w.w.Write(w.payload)
			vpAssume(err == nil && n == len(w.payload))
			w.written = true
		case 2: // Close
			vpAssume(w.w != nil && !w.finished)
			if o := ws[1-i]; w.tombstone && o.ptr != nil && string(o.ptr) == string(w.ptr) {
				// a writer whose pointer was tombstoned under it and re-issued to another writer is
				// only finished once that other writer is done (using both at once is outside the
				// DataStore contract: one writer per pointer)
				vpAssume(o.finished)
			}
			w.finished = true
			if faults && nondetBool() { // an OS error inside Close: temp-file fsync, publishing rename or directory fsync
				switch nondetChoice(3) {
				case 0:
					vpFS.failSyncFile = true
				case 1:
					vpFS.failRename = true
				default:
					vpFS.failSyncDir = true
				}
			}
			w.closedOK = w.w.Close() == nil
			if !w.closedOK && faults {
				// what the engine does with a writer whose Close failed (abortFileWriter): discard and tombstone
				w.w.(interface{ Abort() error }).Abort()
				store.TombstoneFile(ctx, w.ptr)
				w.tombstone = true
				delete(ref, string(w.ptr))
				if vpSymbolic() {
					vpFS.failSyncFile, vpFS.failRename, vpFS.failSyncDir = false, false, false
				}
				names := vpDirNames(root)
				base := string(w.ptr)[len(root)+1:]
				if o := ws[1-i]; !(o.ptr != nil && string(o.ptr) == string(w.ptr)) {
					vpAssert(!vpHasName(names, base) && !vpHasName(names, base[:len(base)-4]+".tmp"), "C16: a failed Close followed by Abort and TombstoneFile left an artifact of the pointer behind")
				}
			}
			if w.closedOK {
				if w.written {
					ref[string(w.ptr)] = w.payload
				} else {
					delete(ref, string(w.ptr))
				}
			}
		case 3: // Abort
			vpAssume(w.w != nil && !w.finished)
			if o := ws[1-i]; w.tombstone && o.ptr != nil && string(o.ptr) == string(w.ptr) {
				// Abort of a writer whose pointer was tombstoned under it and re-issued: the listed
				// known finding (H_C16_known_abort_after_pointer_was_reissued); excluded here so that
				// any other violation is still reported
				vpAssume(false)
			}
			w.finished = true
			w.w.(interface{ Abort() error }).Abort()
		default: // TombstoneFile
			vpAssume(w.ptr != nil && !w.tombstone)
			w.tombstone = true
			vpAssert(store.TombstoneFile(ctx, w.ptr) == nil, "C16: TombstoneFile failed")
			delete(ref, string(w.ptr))
			names := vpDirNames(root)
			base := string(w.ptr)[len(root)+1:]
			other := ws[1-i]
			sameName := other.ptr != nil && string(other.ptr) == string(w.ptr) && !other.tombstone
			if !sameName {
				vpAssert(!vpHasName(names, base), "C16: TombstoneFile left the file at its pointer")
				vpAssert(!vpHasName(names, base[:len(base)-4]+".tmp"), "C16: TombstoneFile left the pointer's temp file")
			}
		}
	}
	// the scan lists exactly the files whose Close succeeded and that were not tombstoned
	listed := map[string][]byte{}
	for f, err := range store.GetMaybeFilesForQuery(ctx, nil) {
		vpAssert(err == nil, "C16: the directory scan failed")
		h, oerr := store.OpenFile(ctx, f.PointerBytes)
		vpAssert(oerr == nil, "C16: a listed file cannot be opened")
		data := vpReadAll(h)
		h.Close()
		listed[string(f.PointerBytes)] = data
	}
	for _, w := range ws {
		if w.ptr == nil {
			continue
		}
		data, isListed := listed[string(w.ptr)]
		want, published := ref[string(w.ptr)]
		vpAssert(isListed == published, "C16: the directory scan does not list exactly the files whose Close succeeded and that were not tombstoned")
		if isListed {
			vpAssert(string(data) == string(want), "C16: a published file does not hold exactly the bytes written through the writer that published it")
		}
	}
	for p := range listed {
		_, ok := ref[p]
		vpAssert(ok, "C16: the directory scan lists a file nobody published")
	}
	if !vpSymbolic() {
		os.RemoveAll(root)
	}
}

func vpReadAll(r io.Reader) []byte {
	var out []byte
	buf := make([]byte, 64)
	for {
		n, err := r.Read(buf)
		out = append(out, buf[:n]...)
		if err != nil || n == 0 {
			return out
		}
	}
}

// Known finding (known_findings.json, C16-abort-after-pointer-reissued): Abort removes whatever sits
// at the writer's final path. If the writer's pointer was tombstoned while it was open and the
// name was then drawn again by a second writer that published, the first writer's Abort deletes
// the second writer's published file.
//
//vp:known C16-abort-after-pointer-reissued
//vp:override bs.encodeFilterSection=vpEncodeSectionConst
//vp:override bs.parseFilterSection=vpParseSectionOK
//vp:bounds the one history: A = CreateFile (draw x); TombstoneFile(A's pointer); B = CreateFile (draw x again); B writes a complete file and closes successfully; A.Abort(); directory scan
func H_C16_known_abort_after_pointer_was_reissued() {
	root := vpFSRoot()
	if vpSymbolic() {
		vpNewFS()
	}
	store := &FileSystemDataStore{rootDir: root, drawFileName: func() string { return "x" }}
	ctx := context.Background()
	a, pa, err := store.CreateFile(ctx)
	vpAssume(err == nil)
	vpAssume(store.TombstoneFile(ctx, pa) == nil)
	b, pb, err := store.CreateFile(ctx)
	vpAssume(err == nil && string(pa) == string(pb))
	img := vpValidImage('B')
	_, werr := b.Write(img)
	vpAssume(werr == nil && b.Close() == nil)
	a.(interface{ Abort() error }).Abort()
	listed := 0
	for f, ferr := range store.GetMaybeFilesForQuery(ctx, nil) {
		if ferr == nil && string(f.PointerBytes) == string(pb) {
			listed++
		}
	}
	if !vpSymbolic() {
		os.RemoveAll(root)
	}
	vpAssert(listed == 1, "C16: a file whose Close succeeded and that was not tombstoned afterwards is missing from the directory scan (deleted by the Abort of an earlier writer of the same, re-issued name)")
}

// The same histories (5 calls) in which any Close may hit an injected OS error at its temp-file
// fsync, publishing rename or directory fsync, and is then cleaned up the way the engine does it
// (abortFileWriter: Abort, then TombstoneFile): nothing of the pointer is left behind and the scan
// still lists exactly what was published.
//
//vp:override bs.encodeFilterSection=vpEncodeSectionConst
//vp:override bs.parseFilterSection=vpParseSectionOK
//vp:maxpaths 600000
//vp:maxsteps 600000
//vp:bounds histories of up to 5 calls over two writers as above, every Close may fail at its temp-file fsync, its rename or its directory fsync (directory model only: OS errors cannot be injected natively)
func HS_C16_histories_with_os_errors_inside_close() { vpFSHistories(true) }
