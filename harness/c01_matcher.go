package bloomsearch

import (
	"log/slog"

	"github.com/bits-and-blooms/bloom/v3"
	"github.com/tidwall/gjson"
)

// ---------------------------------------------------------------------------------------------
// C01 (no false negatives) and C02 (row-level exactness): the real compiled row matcher and the
// real ingest indexer against the documented search semantics (README "Search semantics"),
// written once below as a small oracle over abstract JSON rows.
//   L0  spec(row, cond) <=> compiledRowMatcher.match(row, cond)     (=> is C01, <= is C02)
//   L1  spec(row, cond)  => the entry the pruning evaluator tests is in the sets indexRow built,
//       hence in the block's and file's filters (C18), hence evaluateBloomCondition says "maybe"
//   L2  (in c25_trees.go) pruning is monotone in the row verdict over expression trees
//   L3  the zero-allocation tokenizer path equals "split on whitespace, lowercase" (ASCII)
//   + the matcher's verdict for a row does not depend on the rows matched before it (scratch reuse)
// ---------------------------------------------------------------------------------------------

// ---- the oracle: documented semantics over the abstract tree ----

func specJoin(parent, key string) string {
	if parent == "" {
		return key
	}
	return parent + "." + key
}

// specIsBoundaryPrefix: f is a non-empty prefix of path ending at a path boundary.
func specIsBoundaryPrefix(f, path string) bool {
	if f == "" || len(f) > len(path) {
		return false
	}
	if path[:len(f)] != f {
		return false
	}
	return len(f) == len(path) || path[len(f)] == '.'
}

// specLeafText: the canonical text tokenizers and regexes see (none for null).
func specLeafText(n *vpNode) (string, bool) {
	switch n.Type {
	case gjson.String, gjson.Number:
		return n.Text, true
	case gjson.True:
		return "true", true
	case gjson.False:
		return "false", true
	}
	return "", false
}

func specIsSpace(c byte) bool {
	return c == ' ' || c == '\t' || c == '\n' || c == '\v' || c == '\f' || c == '\r'
}

// specHasToken: the default tokenizer (split on whitespace, lowercase; ASCII) yields t for text.
func specHasToken(text, t string) bool {
	i := 0
	for i < len(text) {
		for i < len(text) && specIsSpace(text[i]) {
			i++
		}
		start := i
		for i < len(text) && !specIsSpace(text[i]) {
			i++
		}
		if i > start && len(t) == i-start {
			same := true
			for j := start; j < i; j++ {
				c := text[j]
				if 'A' <= c && c <= 'Z' {
					c += 'a' - 'A'
				}
				if c != t[j-start] {
					same = false
				}
			}
			if same {
				return true
			}
		}
	}
	return false
}

type vpCond struct {
	kind    int // 0 Field, 1 Token, 2 FieldToken, 3 FieldRegex
	field   string
	token   string
	pattern string
}

var vpCustomTokenizer bool // tokens are the whole text (a custom ValueTokenizerFunc)

func vpWholeTextTokenizer(v string) []string { return []string{v} }

func specTokenOf(text, t string) bool {
	if vpCustomTokenizer {
		return text == t
	}
	return specHasToken(text, t)
}

// specNode: does the subtree of n (whose path is derived from parent/inArray) satisfy c?
func specNode(n *vpNode, parent string, inArray bool, c *vpCond) bool {
	path := parent
	if !inArray {
		path = specJoin(parent, n.Key)
	}
	switch c.kind {
	case 0:
		if specIsBoundaryPrefix(c.field, path) {
			return true
		}
	default:
		if n.Kind == 0 && path != "" {
			if text, ok := specLeafText(n); ok {
				switch c.kind {
				case 1:
					if specTokenOf(text, c.token) {
						return true
					}
				case 2:
					if c.field != "" && path == c.field && specTokenOf(text, c.token) {
						return true
					}
				case 3:
					if c.field != "" && (path == c.field || specIsBoundaryPrefix(c.field, path)) && vpRegexMatches(c.pattern, text) {
						return true
					}
				}
			}
		}
	}
	for _, k := range n.Kids {
		if specNode(k, path, n.Kind == 2, c) {
			return true
		}
	}
	return false
}

func specRow(root *vpNode, c *vpCond) bool {
	for _, k := range root.Kids {
		if specNode(k, "", false, c) {
			return true
		}
	}
	return false
}

// ---- symbolic rows and conditions ----

// vpText: leaf text of 0..max bytes of printable ASCII (space, upper and lower case included) plus
// tab, so that word splitting and case folding are exercised; '"' and '\' are left out so that the
// native JSON rendering is the same text.
func vpText(max int) string {
	s := nondetString(max)
	for i := 0; i < len(s); i++ {
		vpAssume((s[i] >= 0x20 && s[i] < 0x7f && s[i] != '"' && s[i] != '\\') || s[i] == '\t')
	}
	return s
}

func vpLeafNode(key string, textMax int) *vpNode {
	switch nondetChoice(4) {
	case 0:
		return &vpNode{Key: key, Type: gjson.String, Text: vpText(textMax)}
	case 1:
		return &vpNode{Key: key, Type: gjson.Number, Text: "42"}
	case 2:
		return &vpNode{Key: key, Type: gjson.True}
	}
	return &vpNode{Key: key, Type: gjson.Null}
}

// vpRowShape: root object with one or two members: a leaf, a nested object with one leaf, or an
// array of one or two leaves; every key is symbolic (0..keyMax bytes, '.' and the empty key
// included).
func vpRowShape(keyMax, textMax int) *vpNode {
	return vpRowShapeWith(2, keyMax, func(key string) *vpNode { return vpLeafNode(key, textMax) })
}

// vpFixedLeaf: a string leaf "x" (path semantics do not depend on leaf values).
func vpFixedLeaf(key string) *vpNode { return &vpNode{Key: key, Type: gjson.String, Text: "x"} }

// vpPathRow: the rows of the path-semantics harnesses. Quick tier: 1..2 members with keys of 0..1
// bytes. Thorough tier: that, or one member with keys of 0..2 bytes (two members with 2-byte keys
// did not finish in 50 minutes).
func vpPathRow(leaf func(key string) *vpNode) *vpNode {
	if vpThorough() && nondetBool() {
		return vpRowShapeWith(1, 2, leaf)
	}
	return vpRowShapeWith(2, 1, leaf)
}

func vpRowShapeWith(maxMembers, keyMax int, leaf func(key string) *vpNode) *vpNode {
	root := &vpNode{Kind: 1}
	n := 1 + nondetChoice(maxMembers)
	for i := 0; i < n; i++ {
		k := vpKey(keyMax)
		switch nondetChoice(3) {
		case 0:
			root.Kids = append(root.Kids, leaf(k))
		case 1:
			root.Kids = append(root.Kids, &vpNode{Key: k, Kind: 1, Kids: []*vpNode{leaf(vpKey(keyMax))}})
		default:
			arr := &vpNode{Key: k, Kind: 2, Kids: []*vpNode{leaf("")}}
			if nondetBool() {
				arr.Kids = append(arr.Kids, leaf(""))
			}
			root.Kids = append(root.Kids, arr)
		}
	}
	return root
}

// vpTextRow: {"k": leaf} or {"k": [leaf, 42]} with an arbitrary leaf (token semantics do not
// depend on where in the row a leaf sits, FieldToken's path part is covered separately).
func vpTextRow(textMax int) *vpNode {
	root := &vpNode{Kind: 1}
	if nondetBool() {
		root.Kids = []*vpNode{vpLeafNode("k", textMax)}
	} else {
		root.Kids = []*vpNode{{Key: "k", Kind: 2, Kids: []*vpNode{vpLeafNode("", textMax), {Type: gjson.Number, Text: "42"}}}}
	}
	return root
}

func vpCondOfKind(kind, fieldMax, tokenMax int) *vpCond {
	c := &vpCond{kind: kind}
	if kind == 0 || kind == 2 || kind == 3 {
		c.field = vpKey(fieldMax)
	}
	if kind == 1 || kind == 2 {
		c.token = vpText(tokenMax)
	}
	if kind == 3 {
		c.pattern = "p+" // not a literal: its verdict on a text is an uninterpreted predicate
	}
	return c
}

func (c *vpCond) bloom() BloomExpression {
	switch c.kind {
	case 0:
		return Field(c.field)
	case 1:
		return Token(c.token)
	}
	return FieldToken(c.field, c.token)
}

func vpTokenizer() ValueTokenizerFunc {
	if vpCustomTokenizer {
		return vpWholeTextTokenizer
	}
	return BasicWhitespaceLowerTokenizer
}

// vpMatcherFor compiles the real matcher for one condition.
func vpMatcherFor(c *vpCond) *compiledRowMatcher {
	if c.kind == 3 {
		rq, err := compileRegexQuery(&RegexQuery{Expression: &RegexExpression{ExpressionType: RegexExpressionCondition, Condition: &RegexCondition{Field: c.field, Pattern: c.pattern}}})
		vpAssume(err == nil)
		return compileRowMatcher(&BloomQuery{}, rq, ".", vpTokenizer())
	}
	e := c.bloom()
	return compileRowMatcher(&BloomQuery{Expression: &e}, nil, ".", vpTokenizer())
}

//vp:bounds rows: root object with 1..2 members, each a leaf / an object with one leaf / an array of 1..2 leaves; keys of 0..1 symbolic bytes (thorough: also one-member rows with keys of 0..2 bytes) (printable ASCII incl. '.', empty key incl.); one Field condition with a symbolic path of 0..3 (thorough 4) bytes
//vp:maxpaths 400000
func H_C01_field_condition_matches_exactly_what_the_semantics_say() {
	vpCustomTokenizer = false
	row := vpPathRow(vpFixedLeaf)
	c := vpCondOfKind(0, vpBound(3, 4), 0)
	m := vpMatcherFor(c)
	got := m.match(vpToGJSON(row), newRowMatchScratch(m))
	want := specRow(row, c)
	vpAssert(vpImplies(want, got), "C01: a row that has the field (per the documented path semantics) is rejected by the row matcher")
	vpAssert(vpImplies(got, want), "C02: the row matcher accepts a row that does not have the field")
}

//vp:bounds rows {k: leaf} or {k: [leaf, 42]}, the leaf a string (text 0..2 (thorough 3) symbolic bytes incl. space, tab, upper case) / number / true / null; Token(t) or FieldToken(k, t) with t of 0..2 symbolic bytes; default tokenizer or a custom whole-text tokenizer
//vp:maxpaths 400000
func H_C01_token_conditions_match_exactly_what_the_semantics_say() {
	vpCustomTokenizer = nondetBool()
	row := vpTextRow(vpBound(2, 3))
	c := vpCondOfKind(1+nondetChoice(2), 0, 2)
	if c.kind == 2 {
		c.field = "k"
	}
	m := vpMatcherFor(c)
	got := m.match(vpToGJSON(row), newRowMatchScratch(m))
	want := specRow(row, c)
	vpAssert(vpImplies(want, got), "C01: a row holding the token (per the documented semantics) is rejected by the row matcher")
	vpAssert(vpImplies(got, want), "C02: the row matcher accepts a row that does not hold the token")
}

//vp:bounds rows as in the Field harness with string leaves "x"; one FieldToken(f, "x") (exact-path) or FieldRegex(f, p) (at-or-beneath) condition with a symbolic path f of 0..3 bytes; the pattern's verdict on a leaf text is an uninterpreted predicate
//vp:maxpaths 400000
func H_C01_regex_condition_matches_exactly_what_the_semantics_say() {
	vpCustomTokenizer = false
	row := vpPathRow(vpFixedLeaf)
	c := vpCondOfKind(2+nondetChoice(2), 3, 0)
	c.token = "x"
	m := vpMatcherFor(c)
	got := m.match(vpToGJSON(row), newRowMatchScratch(m))
	want := specRow(row, c)
	vpAssert(vpImplies(want, got), "C01: a row with a matching leaf at or beneath the path is rejected by the row matcher")
	vpAssert(vpImplies(got, want), "C02: the row matcher accepts a row without a matching leaf at or beneath the path")
}

// L1 + the pruning leg: whatever the semantics say the row satisfies has its entry in the sets the
// real indexRow builds, so filters built from those sets (C18/C26) test positive and the real
// evaluateBloomFilters cannot prune the row's block or file.
func vpIndexCovers(row *vpNode, c *vpCond) {
	s := newBloomEntrySets()
	s.indexRow(vpRowBytes(row), vpTokenizer())
	if !specRow(row, c) {
		return
	}
	switch c.kind {
	case 0:
		_, ok := s.fields[c.field]
		vpAssert(ok, "C01: a field path the row has was not indexed (a Field query would be pruned by the filters)")
	case 1:
		_, ok := s.tokens[c.token]
		vpAssert(ok, "C01: a token the row holds was not indexed (a Token query would be pruned by the filters)")
	default:
		_, ok := s.fieldTokens[makeFieldTokenKey(c.field, c.token)]
		vpAssert(ok, "C01: a field::token pair the row holds was not indexed (a FieldToken query would be pruned by the filters)")
	}
	// the pruning evaluator tests exactly that entry: with filters holding the sets it says "maybe"
	ff, tf, ftf := vpNewBloom(), vpNewBloom(), vpNewBloom()
	for k := range s.fields {
		ff.AddString(k)
	}
	for k := range s.tokens {
		tf.AddString(k)
	}
	for k := range s.fieldTokens {
		ftf.AddString(k)
	}
	e := c.bloom()
	b := &BloomSearchEngine{logger: slog.New(slog.DiscardHandler)}
	vpAssert(b.evaluateBloomFilters(ff, tf, ftf, &BloomQuery{Expression: &e}), "C01: filters holding every indexed entry of a matching row still prune it")
}

//vp:bounds path part: the rows of the Field harness (symbolic shapes and keys, string leaves "x") with a Field(f) or FieldToken(f, "x") condition, f of 0..3 symbolic bytes; default or custom whole-text tokenizer
//vp:maxpaths 400000
func H_C01_indexed_paths_cover_every_satisfied_condition() {
	vpCustomTokenizer = nondetBool()
	row := vpPathRow(vpFixedLeaf)
	c := vpCondOfKind(2*nondetChoice(2), 3, 0)
	c.token = "x"
	vpIndexCovers(row, c)
}

//vp:bounds token part: the rows of the token harness (fixed path, symbolic leaf) with Token(t) or FieldToken(k, t), t of 0..2 symbolic bytes; default or custom whole-text tokenizer
//vp:maxpaths 400000
func H_C01_indexed_tokens_cover_every_satisfied_condition() {
	vpCustomTokenizer = nondetBool()
	row := vpTextRow(vpBound(2, 3))
	c := vpCondOfKind(1+nondetChoice(2), 0, 2)
	if c.kind == 2 {
		c.field = "k"
	}
	vpIndexCovers(row, c)
}

// The regex field-existence guard: a row with a leaf at or beneath the regex path has that path
// indexed as a field, so the guard query cannot prune it.
//
//vp:bounds rows as above; one FieldRegex condition with a symbolic path of 0..3 bytes
//vp:maxpaths 400000
func H_C01_regex_guard_field_is_indexed() {
	vpCustomTokenizer = false
	row := vpPathRow(vpFixedLeaf)
	c := vpCondOfKind(3, 3, 0)
	c.pattern = "x" // a literal the fixed leaf text matches: the condition holds iff a leaf sits at or beneath the path
	s := newBloomEntrySets()
	s.indexRow(vpRowBytes(row), BasicWhitespaceLowerTokenizer)
	if !specRow(row, c) {
		return
	}
	_, ok := s.fields[c.field]
	vpAssert(ok, "C01: the path of a regex condition that a row satisfies was not indexed as a field (the guard would prune the row)")
	guard := RegexFieldGuardBloomQuery(&RegexQuery{Expression: &RegexExpression{ExpressionType: RegexExpressionCondition, Condition: &RegexCondition{Field: c.field, Pattern: c.pattern}}})
	ff := vpNewBloom()
	for k := range s.fields {
		ff.AddString(k)
	}
	b := &BloomSearchEngine{logger: slog.New(slog.DiscardHandler)}
	vpAssert(b.evaluateBloomFilters(ff, vpNewBloom(), vpNewBloom(), guard), "C01: the regex field guard prunes a row that satisfies the regex condition")
}

// The matcher's verdict on a row is independent of the rows its scratch has seen before: two rows
// matched back to back with one scratch against OR / AND combinations of two conditions.
//
//vp:bounds two rows (1..2 and 1 string leaves, keys a/b, texts x/y) matched consecutively with one scratch; query = OR or AND of two conditions of one kind among Field / Token / FieldToken (paths a/b, tokens x/y) or two FieldRegex legs with the literal patterns x and y
//vp:maxpaths 400000
func H_C02_verdict_does_not_depend_on_previously_matched_rows() {
	vpCustomTokenizer = false
	ab := func() string {
		if nondetBool() {
			return "a"
		}
		return "b"
	}
	xy := func() string {
		if nondetBool() {
			return "x"
		}
		return "y"
	}
	mk := func(maxLeaves int) *vpNode {
		root := &vpNode{Kind: 1}
		n := 1 + nondetChoice(maxLeaves)
		for i := 0; i < n; i++ {
			root.Kids = append(root.Kids, &vpNode{Key: ab(), Type: gjson.String, Text: xy()})
		}
		return root
	}
	r1, r2 := mk(2), mk(1)
	regexOnly := nondetBool()
	cond := func(kind int) *vpCond {
		c := &vpCond{kind: kind, pattern: "x"}
		if kind != 1 {
			c.field = ab()
		}
		if kind == 1 || kind == 2 {
			c.token = xy()
		}
		return c
	}
	var c1, c2 *vpCond
	if regexOnly {
		c1, c2 = cond(3), cond(3)
		c2.pattern = "y"
	} else {
		k := nondetChoice(3)
		c1, c2 = cond(k), cond(k)
	}
	isOr := nondetBool()
	var m *compiledRowMatcher
	if regexOnly {
		l1 := FieldRegex(c1.field, c1.pattern)
		l2 := FieldRegex(c2.field, c2.pattern)
		e := RegexAnd(l1, l2)
		if isOr {
			e = RegexOr(l1, l2)
		}
		rq, err := compileRegexQuery(&RegexQuery{Expression: &e})
		vpAssume(err == nil)
		m = compileRowMatcher(&BloomQuery{}, rq, ".", BasicWhitespaceLowerTokenizer)
	} else {
		e := And(c1.bloom(), c2.bloom())
		if isOr {
			e = Or(c1.bloom(), c2.bloom())
		}
		m = compileRowMatcher(&BloomQuery{Expression: &e}, nil, ".", BasicWhitespaceLowerTokenizer)
	}
	scratch := newRowMatchScratch(m)
	spec := func(r *vpNode) bool {
		a, b := specRow(r, c1), specRow(r, c2)
		if isOr {
			return vpOr(a, b)
		}
		return vpAnd(a, b)
	}
	got1 := m.match(vpToGJSON(r1), scratch)
	got2 := m.match(vpToGJSON(r2), scratch)
	vpAssert(got1 == spec(r1), "C01/C02: the row matcher disagrees with the documented semantics on the first row")
	vpAssert(got2 == spec(r2), "C02: the row matcher's verdict on a row depends on the row matched before it (or disagrees with the semantics)")
}

// L3: the zero-allocation word scan and fold reproduce "split on whitespace, lowercase" (ASCII).
//
//vp:bounds ASCII texts of 0..3 (thorough 4) symbolic bytes (all 128 values), token of 0..2 symbolic bytes
func H_C01_fast_tokenizer_equals_split_and_lowercase() {
	text := nondetString(vpBound(3, 4))
	for i := 0; i < len(text); i++ {
		vpAssume(text[i] < 0x80)
	}
	t := nondetString(2)
	found := false
	var buf []byte
	forEachWord(text, func(word string) bool {
		buf = appendFoldedWord(buf[:0], word)
		if string(buf) == t {
			found = true
			return false
		}
		return true
	})
	vpAssert(found == specHasToken(text, t), "C01: the fast tokenizer path and 'split on whitespace, lowercase' disagree on a token")
}

var _ = bloom.New

// The prefilter leg of C01 (details are C04's check): index updates and merges cover what they
// are given, so a merged block's range still covers every row value.
//
//vp:bounds as H_C04_update_covers and H_C04_merged_range_keeps_what_sources_kept
func H_C01_minmax_ranges_cover_after_update_and_merge() {
	if nondetBool() {
		H_C04_update_covers()
		return
	}
	H_C04_merged_range_keeps_what_sources_kept()
}

// The index-coverage leg of C01 across merges (details are C11/C17/C18): the entry sets a merged
// file's filters are built from hold exactly the rows stored in each block and in the file, also
// when the tokenizer returns views of the row bytes it was handed.
//
//vp:override (*bs.bloomEntrySets).indexRow=vpIndexRowRec
//vp:override (*bs.bloomEntrySets).buildFilters=vpBuildFiltersRec
//vp:override bs.encodeFilterSection=vpEncodeSectionStub
//vp:override bs.parseFilterSection=vpParseSectionOK
//vp:maxsteps 400000
//vp:bounds as H_C11_merge_preserves_rows_and_describes_its_output
//vp:override (*bs.BloomSearchEngine).createCompressionWriter=vpCreateCompressionWriterTagged
//vp:override bs.decodeBlockRowDataInto=vpDecodeTagged
func H_C01_merged_files_index_the_rows_they_hold() { vpMergedFileBody() }
