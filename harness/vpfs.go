package bloomsearch

import (
	"errors"
	"io"
	"io/fs"
	"os"
	"sort"
	"sync"
	"time"
)

// ---------------------------------------------------------------------------------------------
// A small POSIX directory model (one flat directory) in harness Go, standing in for the os and
// path/filepath calls of file_system_store.go under the executor. Natively the real os package
// and a real temporary directory are used (the harness asks vpFSRoot() for its path).
//
// Semantics modelled: O_CREATE|O_EXCL fails on an existing name; O_CREATE without O_EXCL opens or
// creates; rename replaces its destination and fails when the source is missing; unlink removes the
// name and leaves open handles usable; a file's bytes become durable at its fsync, the directory's
// entries (creates, renames, removes) at the directory's fsync. Every mutation is logged, so the
// state after any prefix of the log — as seen by a process crash (everything the kernel had) or by
// a power loss (only what was fsynced, or any later state of each item) — can be rebuilt.
// ---------------------------------------------------------------------------------------------

type vpInode struct {
	data []byte
	id   int
}

const (
	fsCreate = iota
	fsWrite
	fsSyncFile
	fsRename
	fsRemove
	fsSyncDir
)

type vpFSEvent struct {
	kind     int
	name     string
	name2    string
	ino      *vpInode
	n        int // write: file length after the write
	mutation bool
}

type vpFSModel struct {
	root    string
	dir     map[string]*vpInode
	open    map[*os.File]*vpFD
	events  []vpFSEvent
	nInodes int
	// fault injection: when set, the next matching operation fails once
	failRename, failSyncFile, failSyncDir, failRemove, failCreate bool
}

type vpFD struct {
	ino    *vpInode
	pos    int64
	closed bool
	isDir  bool
	name   string
}

var vpFS *vpFSModel

var (
	vpErrExist    = fs.ErrExist
	vpErrNotExist = fs.ErrNotExist
	vpErrIO       = errors.New("injected I/O error")
)

func vpNewFS() *vpFSModel {
	vpFS = &vpFSModel{root: "/d", dir: map[string]*vpInode{}, open: map[*os.File]*vpFD{}}
	return vpFS
}

// vpFSRoot: the directory the store under test works in (natively: a fresh temporary directory).
func vpFSRoot() string {
	if vpSymbolic() {
		return "/d"
	}
	d, err := os.MkdirTemp("", "vpfs")
	if err != nil {
		panic(err)
	}
	return d
}

func (m *vpFSModel) base(path string) string {
	if len(path) > len(m.root)+1 && path[:len(m.root)+1] == m.root+"/" {
		return path[len(m.root)+1:]
	}
	return path
}

func (m *vpFSModel) log(e vpFSEvent) { m.events = append(m.events, e) }

// ---- os / filepath models (executor only) ----

func vpModel_path_filepath_Join(elem ...string) string {
	s := ""
	for i, e := range elem {
		if i > 0 {
			s += "/"
		}
		s += e
	}
	return s
}

func vpModel_path_filepath_Dir(path string) string {
	for i := len(path) - 1; i >= 0; i-- {
		if path[i] == '/' {
			return path[:i]
		}
	}
	return "."
}

func vpModel_os_IsExist(err error) bool    { return errors.Is(err, fs.ErrExist) }
func vpModel_os_IsNotExist(err error) bool { return errors.Is(err, fs.ErrNotExist) }

func vpModel_os_OpenFile(name string, flag int, perm os.FileMode) (*os.File, error) {
	m := vpFS
	if name == m.root {
		f := new(os.File)
		m.open[f] = &vpFD{isDir: true, name: name}
		return f, nil
	}
	b := m.base(name)
	ino, exists := m.dir[b]
	if flag&os.O_CREATE != 0 {
		if exists && flag&os.O_EXCL != 0 {
			return nil, vpErrExist
		}
		if m.failCreate {
			m.failCreate = false
			return nil, vpErrIO
		}
		if !exists {
			m.nInodes++
			ino = &vpInode{id: m.nInodes}
			m.dir[b] = ino
			m.log(vpFSEvent{kind: fsCreate, name: b, ino: ino, mutation: true})
		}
	} else if !exists {
		return nil, vpErrNotExist
	}
	f := new(os.File)
	m.open[f] = &vpFD{ino: ino, name: b}
	return f, nil
}

func vpModel_os_Open(name string) (*os.File, error) { return vpModel_os_OpenFile(name, os.O_RDONLY, 0) }

func vpModel_os_Remove(name string) error {
	m := vpFS
	b := m.base(name)
	if _, ok := m.dir[b]; !ok {
		return vpErrNotExist
	}
	if m.failRemove {
		m.failRemove = false
		return vpErrIO
	}
	delete(m.dir, b)
	m.log(vpFSEvent{kind: fsRemove, name: b, mutation: true})
	return nil
}

func vpModel_os_Rename(oldpath, newpath string) error {
	m := vpFS
	a, b := m.base(oldpath), m.base(newpath)
	ino, ok := m.dir[a]
	if !ok {
		return vpErrNotExist
	}
	if m.failRename {
		m.failRename = false
		return vpErrIO
	}
	m.dir[b] = ino
	delete(m.dir, a)
	m.log(vpFSEvent{kind: fsRename, name: a, name2: b, ino: ino, mutation: true})
	return nil
}

type vpDirEntry struct{ name string }

func (e vpDirEntry) Name() string               { return e.name }
func (e vpDirEntry) IsDir() bool                { return false }
func (e vpDirEntry) Type() fs.FileMode          { return 0 }
func (e vpDirEntry) Info() (fs.FileInfo, error) { return nil, vpErrIO }

func vpModel_os_ReadDir(name string) ([]os.DirEntry, error) {
	m := vpFS
	var names []string
	for n := range m.dir {
		names = append(names, n)
	}
	sort.Strings(names)
	out := make([]os.DirEntry, 0, len(names))
	for _, n := range names {
		out = append(out, vpDirEntry{n})
	}
	return out, nil
}

func vpFDOf(f *os.File) *vpFD {
	if vpFS == nil {
		return nil
	}
	return vpFS.open[f]
}

func vpModelM_os_File_Write(f *os.File, p []byte) (int, error) {
	fd := vpFDOf(f)
	if fd == nil { // not one of the model's files: os.Stdout / os.Stderr
		vpForbidden("(*os.File).Write")
		return len(p), nil
	}
	if fd.closed {
		return 0, fs.ErrClosed
	}
	fd.ino.data = append(fd.ino.data, p...)
	vpFS.log(vpFSEvent{kind: fsWrite, ino: fd.ino, n: len(fd.ino.data), mutation: true})
	return len(p), nil
}

func vpModelM_os_File_WriteString(f *os.File, s string) (int, error) {
	return vpModelM_os_File_Write(f, []byte(s))
}

func vpModelM_os_File_Sync(f *os.File) error {
	fd := vpFDOf(f)
	if fd == nil || fd.closed {
		return fs.ErrClosed
	}
	if fd.isDir {
		if vpFS.failSyncDir {
			vpFS.failSyncDir = false
			return vpErrIO
		}
		vpFS.log(vpFSEvent{kind: fsSyncDir})
		return nil
	}
	if vpFS.failSyncFile {
		vpFS.failSyncFile = false
		return vpErrIO
	}
	vpFS.log(vpFSEvent{kind: fsSyncFile, ino: fd.ino, n: len(fd.ino.data)})
	return nil
}

func vpModelM_os_File_Close(f *os.File) error {
	fd := vpFDOf(f)
	if fd == nil || fd.closed {
		return fs.ErrClosed
	}
	fd.closed = true
	return nil
}

func vpModelM_os_File_Read(f *os.File, p []byte) (int, error) {
	fd := vpFDOf(f)
	if fd == nil || fd.closed || fd.isDir {
		return 0, fs.ErrClosed
	}
	if len(p) == 0 {
		return 0, nil
	}
	if fd.pos >= int64(len(fd.ino.data)) {
		return 0, io.EOF
	}
	n := copy(p, fd.ino.data[fd.pos:])
	fd.pos += int64(n)
	return n, nil
}

func vpModelM_os_File_Seek(f *os.File, off int64, whence int) (int64, error) {
	fd := vpFDOf(f)
	if fd == nil || fd.closed || fd.isDir {
		return 0, fs.ErrClosed
	}
	var np int64
	switch whence {
	case io.SeekStart:
		np = off
	case io.SeekEnd:
		np = int64(len(fd.ino.data)) + off
	default:
		np = fd.pos + off
	}
	if np < 0 {
		return 0, errors.New("seek before start")
	}
	fd.pos = np
	return np, nil
}

// ---- crash recovery: the directory a restarted process finds ----

// vpFSRecover rebuilds the directory after a crash that happened right after the first k logged
// events. powerLoss=false: a process crash — everything the kernel had accepted survives.
// powerLoss=true: the namespace is the one at some event j between the last directory fsync (at or
// before k) and k, and each file holds its bytes as of its last fsync (contentDurableOnly) or as of
// k. Returns a fresh model holding the recovered directory.
func (m *vpFSModel) vpFSRecover(k int, powerLoss bool, j int, contentDurableOnly bool) *vpFSModel {
	vol := map[string]*vpInode{}
	volLen := map[*vpInode]int{}
	durLen := map[*vpInode]int{}
	nsAtJ := map[string]*vpInode{}
	lastDirSync := 0
	for i := 0; i < k && i < len(m.events); i++ {
		e := m.events[i]
		switch e.kind {
		case fsCreate:
			vol[e.name] = e.ino
		case fsWrite:
			volLen[e.ino] = e.n
		case fsSyncFile:
			durLen[e.ino] = e.n
		case fsRename:
			vol[e.name2] = vol[e.name]
			delete(vol, e.name)
		case fsRemove:
			delete(vol, e.name)
		case fsSyncDir:
			lastDirSync = i + 1
		}
		if i+1 == j {
			nsAtJ = map[string]*vpInode{}
			for n, ino := range vol {
				nsAtJ[n] = ino
			}
		}
	}
	ns := vol
	if powerLoss {
		vpAssume(j >= lastDirSync && j <= k)
		if j == 0 {
			nsAtJ = map[string]*vpInode{}
		}
		ns = nsAtJ
	}
	out := &vpFSModel{root: m.root, dir: map[string]*vpInode{}, open: map[*os.File]*vpFD{}}
	for n, ino := range ns {
		l := volLen[ino]
		if powerLoss && contentDurableOnly {
			l = durLen[ino]
		}
		out.nInodes++
		out.dir[n] = &vpInode{id: out.nInodes, data: append([]byte(nil), ino.data[:l]...)}
	}
	return out
}

var _ = time.Now

// strings helpers whose library bodies go through internal/stringslite
func vpModel_strings_HasSuffix(s, suffix string) bool {
	return len(s) >= len(suffix) && s[len(s)-len(suffix):] == suffix
}
func vpModel_strings_HasPrefix(s, prefix string) bool {
	return len(s) >= len(prefix) && s[:len(prefix)] == prefix
}
func vpModel_strings_TrimSuffix(s, suffix string) string {
	if vpModel_strings_HasSuffix(s, suffix) {
		return s[:len(s)-len(suffix)]
	}
	return s
}
func vpModel_strings_TrimPrefix(s, prefix string) string {
	if vpModel_strings_HasPrefix(s, prefix) {
		return s[len(prefix):]
	}
	return s
}

type vpFileInfo struct {
	name string
	size int64
	dir  bool
}

func (i vpFileInfo) Name() string       { return i.name }
func (i vpFileInfo) Size() int64        { return i.size }
func (i vpFileInfo) Mode() fs.FileMode  { return 0o600 }
func (i vpFileInfo) ModTime() time.Time { return time.Time{} }
func (i vpFileInfo) IsDir() bool        { return i.dir }
func (i vpFileInfo) Sys() any           { return nil }

func vpModel_os_Stat(name string) (os.FileInfo, error) {
	m := vpFS
	if name == m.root {
		return vpFileInfo{name: name, dir: true}, nil
	}
	ino, ok := m.dir[m.base(name)]
	if !ok {
		return nil, vpErrNotExist
	}
	return vpFileInfo{name: m.base(name), size: int64(len(ino.data))}, nil
}
func vpModel_os_Lstat(name string) (os.FileInfo, error) { return vpModel_os_Stat(name) }

func vpModelM_os_File_Stat(f *os.File) (os.FileInfo, error) {
	fd := vpFDOf(f)
	if fd == nil || fd.closed {
		return nil, fs.ErrClosed
	}
	if fd.isDir {
		return vpFileInfo{name: fd.name, dir: true}, nil
	}
	return vpFileInfo{name: fd.name, size: int64(len(fd.ino.data))}, nil
}

// ---- sync.Map (harness-Go model): a list of pairs per map, found by the map's address ----

type vpSyncMapState struct {
	keys, vals []any
}

var vpSyncMaps map[*sync.Map]*vpSyncMapState

func vpSyncMapOf(m *sync.Map) *vpSyncMapState {
	if vpSyncMaps == nil {
		vpSyncMaps = map[*sync.Map]*vpSyncMapState{}
	}
	s := vpSyncMaps[m]
	if s == nil {
		s = &vpSyncMapState{}
		vpSyncMaps[m] = s
	}
	return s
}

func (s *vpSyncMapState) find(key any) int {
	for i, k := range s.keys {
		if k == key {
			return i
		}
	}
	return -1
}

func vpModelM_sync_Map_Store(m *sync.Map, key, value any) {
	s := vpSyncMapOf(m)
	if i := s.find(key); i >= 0 {
		s.vals[i] = value
		return
	}
	s.keys, s.vals = append(s.keys, key), append(s.vals, value)
}

func vpModelM_sync_Map_Load(m *sync.Map, key any) (any, bool) {
	s := vpSyncMapOf(m)
	if i := s.find(key); i >= 0 {
		return s.vals[i], true
	}
	return nil, false
}

func vpModelM_sync_Map_LoadOrStore(m *sync.Map, key, value any) (any, bool) {
	if v, ok := vpModelM_sync_Map_Load(m, key); ok {
		return v, true
	}
	vpModelM_sync_Map_Store(m, key, value)
	return value, false
}

func vpModelM_sync_Map_Delete(m *sync.Map, key any) {
	s := vpSyncMapOf(m)
	if i := s.find(key); i >= 0 {
		s.keys = append(s.keys[:i:i], s.keys[i+1:]...)
		s.vals = append(s.vals[:i:i], s.vals[i+1:]...)
	}
}

func vpModelM_sync_Map_Range(m *sync.Map, f func(key, value any) bool) {
	s := vpSyncMapOf(m)
	keys, vals := append([]any(nil), s.keys...), append([]any(nil), s.vals...)
	for i := range keys {
		if !f(keys[i], vals[i]) {
			return
		}
	}
}
