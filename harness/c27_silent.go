package bloomsearch

import (
	"log/slog"
	"time"
)

// ---------------------------------------------------------------------------------------------
// C27 — the engine is silent by default. (1) NewBloomSearchEngine installs the discard handler
// when no Logger is configured and keeps a configured one. (2) On every path explored by the
// flush, merge, lifecycle / Stop-deadline and query harnesses below — failure paths included — no
// call reaches fmt.Print*, log.*, the package-level slog functions, os.Stdout/os.Stderr writes or
// the print builtins (the executor reports any such call as a violation in every harness of every
// property; natively the run's file descriptors 1 and 2 are captured). (3) Static side condition:
// the engine lists every such call site in the package's non-test code; a site no harness reached
// makes the check inconclusive rather than passing.
// ---------------------------------------------------------------------------------------------

//vp:bounds valid configuration, Logger nil or set
func H_C27_constructor_installs_the_discard_handler() {
	w := vpNewWorld()
	cfg := BloomSearchEngineConfig{
		Tokenizer: BasicWhitespaceLowerTokenizer, MaxRowGroupRows: 1, MaxRowGroupBytes: 1, MaxFileSize: 1, MaxBufferedRows: 1, MaxBufferedBytes: 1,
		MaxBufferedTime: time.Second, IngestBufferSize: 1, BloomFalsePositiveRate: 0.01, MaxQueryConcurrency: 1, MaxFilesToMergePerOperation: 2,
	}
	var own *slog.Logger
	if nondetBool() {
		own = slog.New(slog.DiscardHandler)
		cfg.Logger = own
	}
	b, err := NewBloomSearchEngine(cfg, &vpMeta{w}, &vpStore{w})
	vpAssert(err == nil && b != nil && b.logger != nil, "C27: the engine has no logger")
	if own != nil {
		vpAssert(b.logger == own, "C27: a configured logger was replaced")
	} else {
		vpAssert(b.logger.Handler() == slog.DiscardHandler, "C27: without a configured Logger the engine does not log to the discard handler")
	}
}

//vp:override (*bs.bloomEntrySets).buildFilters=vpBuildFiltersStub
//vp:override bs.encodeFilterSection=vpEncodeSectionStub
//vp:bounds as H_C06_flush_acks_are_truthful: every flush fault path
func H_C27_flush_paths_are_silent() { H_C06_flush_acks_are_truthful() }

//vp:override (*bs.BloomSearchEngine).processPartitionBlocks=vpBlockStageStub
//vp:override (*bs.bloomEntrySets).buildFilters=vpBuildFiltersStub
//vp:bounds as H_C13_merge_is_all_or_nothing: every merge fault path, post-commit cleanup failures included
func H_C27_merge_paths_are_silent() { H_C13_merge_is_all_or_nothing() }

//vp:override (*bs.bloomEntrySets).indexRow=vpIndexRowNop
//vp:override (*bs.bloomEntrySets).buildFilters=vpBuildFiltersStub
//vp:override bs.encodeFilterSection=vpEncodeSectionStub
//vp:maxsteps 300000
//vp:bounds as H_C08_stop_obeys_its_deadline_and_starts_no_new_store_work: shutdown deadline paths (abandoned flushes)
func H_C27_stop_deadline_paths_are_silent() { H_C08_stop_obeys_its_deadline_and_starts_no_new_store_work() }

//vp:override (*bs.BloomSearchEngine).evaluateBloomFilters=vpQueryVerdictStub
//vp:override (*bs.blockFilterCursor).filtersFor=vpQueryFiltersFor
//vp:override (*bs.blockFilterCursor).release=vpCursorReleaseNop
//vp:override bs.readPooledBlockRowData=vpReadRowDataStub
//vp:override (*bs.compiledRowMatcher).matchRowBytes=vpMatchStub
//vp:override bs.materializeRow=vpMaterializeStub
//vp:bounds as H_C21_query_teardown_releases_everything: query paths with store faults, cancellation and Close, plus read handles whose Close fails
func H_C27_query_paths_are_silent() {
	vpReadCloseMayFail = true // also: a discarded or pooled handle whose Close reports an error
	vpQueryTeardownBody(false)
}
