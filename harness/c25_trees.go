package bloomsearch

import (
	"log/slog"

	"github.com/bits-and-blooms/bloom/v3"
	"github.com/tidwall/gjson"
)

// ---------------------------------------------------------------------------------------------
// C25 — expression trees mean what they say (constructors, flattening, builder chains), under
// every evaluator that consumes them: the compiled row matcher, the file/block bloom pruning
// evaluator and the prefilter evaluator. (JSON round-trips are not decided: see DESIGN.)
//
// Also C01-L2: the pruning evaluator never says "prune" when the row matcher says "match",
// provided every satisfied leaf's entry tests positive in the filter.
// ---------------------------------------------------------------------------------------------

// vpNewBloom returns a filter whose answers are declared with vpBloomSet (symbolic model), or a
// real, generously sized filter natively.
func vpNewBloom() *bloom.BloomFilter { return bloom.NewWithEstimates(64, 0.000001) }

// vpBloomSet declares TestString(key) == answer. Natively: the key is added when answer is true.
func vpBloomSet(f *bloom.BloomFilter, key string, answer bool) {
	if answer {
		f.AddString(key)
	}
}

type vpTreeCtx struct {
	n      int    // leaves created so far (names f0, f1, ...)
	truths []bool // row-level truth of each real condition, in creation (= compile) order
	filter *bloom.BloomFilter
	noisy  bool // filter may answer "maybe" for unsatisfied leaves (false positives)
}

func vpLeafName(i int) string { return "f" + string(rune('0'+i)) }

// vpBloomLeaf: a real Field condition with symbolic truth, or one of the degenerate leaves.
func vpBloomLeaf(c *vpTreeCtx) (BloomExpression, bool) {
	switch nondetChoice(4) {
	case 0:
		name := vpLeafName(c.n)
		c.n++
		t := nondetBool()
		c.truths = append(c.truths, t)
		ans := t
		if c.noisy {
			ans = vpOr(t, nondetBool())
		}
		vpBloomSet(c.filter, name, ans)
		return Field(name), t
	case 1: // CONDITION node without a condition: true
		return BloomExpression{ExpressionType: BloomExpressionCondition}, true
	case 2: // unknown expression type: false
		return BloomExpression{ExpressionType: "BOGUS"}, false
	}
	// unknown condition type: false
	return BloomExpression{ExpressionType: BloomExpressionCondition, Condition: &BloomCondition{Type: "BOGUS", Field: "zz"}}, false
}

// vpBloomTree builds a tree with the public constructors (so flattening is exercised) or, for
// inner nodes, as raw structs (so nested same-type nodes reach the constructors un-flattened).
func vpBloomTree(c *vpTreeCtx, depth, width int) (BloomExpression, bool) {
	if depth == 0 || nondetBool() {
		return vpBloomLeaf(c)
	}
	n := nondetChoice(width + 1)
	isAnd := nondetBool()
	raw := vpThorough() && nondetBool() // quick tier: inner nodes always go through the constructors
	var kids []BloomExpression
	truth := isAnd
	for i := 0; i < n; i++ {
		k, t := vpBloomTree(c, depth-1, width)
		kids = append(kids, k)
		if isAnd {
			truth = vpAnd(truth, t)
		} else {
			truth = vpOr(truth, t)
		}
	}
	switch {
	case isAnd && raw:
		return BloomExpression{ExpressionType: BloomExpressionAnd, Children: kids}, truth
	case isAnd:
		return And(kids...), truth
	case raw:
		return BloomExpression{ExpressionType: BloomExpressionOr, Children: kids}, truth
	}
	return Or(kids...), truth
}

func vpEvalCompiled(c *vpTreeCtx, q *BloomQuery) bool {
	m := compileRowMatcher(q, nil, ".", BasicWhitespaceLowerTokenizer)
	vpAssert(len(m.conditions) == len(c.truths), "C25: compiling the tree lost or invented a condition")
	sat := make([]bool, len(m.conditions))
	for i := range sat {
		vpAssert(m.conditions[i].kind == rowCondField && m.conditions[i].field == vpLeafName(i), "C25: compiled conditions are not the tree's leaves in order")
		sat[i] = c.truths[i]
	}
	return evalMatcherNode(&m.root, sat)
}

//vp:bounds bloom trees of depth <= 2, width <= 2 (thorough: inner nodes also as raw structs, un-flattened); leaves: Field with symbolic truth, nil condition, unknown node type, unknown condition type; inner nodes via And()/Or() or raw structs
//vp:maxpaths 600000
func H_C25_bloom_trees_mean_what_they_say() {
	c := &vpTreeCtx{filter: vpNewBloom()}
	tree, truth := vpBloomTree(c, 2, 2) // width 3 in the thorough tier did not finish within 50 minutes
	q := &BloomQuery{Expression: &tree}
	vpAssert(vpEvalCompiled(c, q) == truth, "C25: compiled row matcher disagrees with the nested boolean meaning of the tree")
	b := &BloomSearchEngine{}
	vpAssert(b.evaluateBloomFilters(c.filter, nil, nil, q) == truth, "C25: bloom pruning evaluator disagrees with the nested boolean meaning of the tree")
}

// C01-L2: with a filter that answers "maybe" for every satisfied leaf (and anything for the
// others), and with absent filters, a row the matcher accepts is never pruned.
//
//vp:bounds as above, plus arbitrary false positives and each filter possibly absent
//vp:maxpaths 600000
func H_C01_pruning_is_monotone_in_the_row_verdict() {
	c := &vpTreeCtx{filter: vpNewBloom(), noisy: true}
	tree, truth := vpBloomTree(c, 2, 2)
	q := &BloomQuery{Expression: &tree}
	vpAssume(truth)
	vpAssert(vpEvalCompiled(c, q), "C01: matcher rejects a row that satisfies the tree")
	b := &BloomSearchEngine{logger: slog.New(slog.DiscardHandler)}
	f := c.filter
	if nondetBool() {
		f = nil // filter absent from the metadata: cannot disqualify
	}
	vpAssert(b.evaluateBloomFilters(f, nil, nil, q), "C01: file/block filters prune although a row satisfies the query")
}

// Regex trees: RegexAnd/RegexOr + compileRegexQuery + the matcher's regex compilation, and the
// field-existence guard derived from the regex tree (C01: guard true whenever the regex tree is).
func vpRegexTree(c *vpTreeCtx, depth, width int) (RegexExpression, bool) {
	if depth == 0 || nondetBool() {
		if nondetBool() {
			// empty field path: documented as matching nothing
			return FieldRegex("", "p"), false
		}
		name := vpLeafName(c.n)
		c.n++
		t := nondetBool()
		c.truths = append(c.truths, t)
		// the guard's field-existence entry is present whenever a leaf beneath the field matched
		vpBloomSet(c.filter, name, vpOr(t, nondetBool()))
		return FieldRegex(name, "p"), t
	}
	n := nondetChoice(width + 1)
	isAnd := nondetBool()
	raw := vpThorough() && nondetBool() // quick tier: inner nodes always go through the constructors
	var kids []RegexExpression
	truth := isAnd
	for i := 0; i < n; i++ {
		k, t := vpRegexTree(c, depth-1, width)
		kids = append(kids, k)
		if isAnd {
			truth = vpAnd(truth, t)
		} else {
			truth = vpOr(truth, t)
		}
	}
	switch {
	case isAnd && raw:
		return RegexExpression{ExpressionType: RegexExpressionAnd, Children: kids}, truth
	case isAnd:
		return RegexAnd(kids...), truth
	case raw:
		return RegexExpression{ExpressionType: RegexExpressionOr, Children: kids}, truth
	}
	return RegexOr(kids...), truth
}

//vp:bounds regex trees of depth <= 2, width <= 2; leaves: FieldRegex with symbolic truth or empty field; regexp.Compile succeeds
//vp:maxpaths 600000
func H_C25_regex_trees_mean_what_they_say() {
	c := &vpTreeCtx{filter: vpNewBloom()}
	tree, truth := vpRegexTree(c, 2, 2)
	rq := &RegexQuery{Expression: &tree}
	crq, err := compileRegexQuery(rq)
	vpAssume(err == nil) // an invalid pattern fails Query up front; not an evaluation question
	m := compileRowMatcher(&BloomQuery{}, crq, ".", BasicWhitespaceLowerTokenizer)
	vpAssert(len(m.conditions) == len(c.truths), "C25: compiling the regex tree lost or invented a condition")
	sat := make([]bool, len(m.conditions))
	for i := range sat {
		vpAssert(m.conditions[i].kind == rowCondRegex && m.conditions[i].field == vpLeafName(i), "C25: compiled regex conditions are not the tree's leaves in order")
		sat[i] = c.truths[i]
	}
	got := evalMatcherNode(&m.root, sat)
	vpAssert(got == truth, "C25: compiled regex matcher disagrees with the nested boolean meaning of the tree")
	// C01-L2 for the guard: regex tree true => field guard not pruned
	if truth {
		guard := RegexFieldGuardBloomQuery(rq)
		prune := AndBloomQueries(&BloomQuery{}, guard)
		b := &BloomSearchEngine{}
		vpAssert(b.evaluateBloomFilters(c.filter, nil, nil, prune), "C01: the regex field guard prunes although the regex tree is satisfied")
	}
}

// The same trees evaluated by the REAL matcher on a REAL row (compiledRowMatcher.match with its lazy
// regex pass and scratch), not by the node evaluator on given leaf verdicts: the row is built so that
// leaf i's field is absent, present with a text the pattern rejects, or present with a text it
// accepts — a leaf whose field the row lacks must not change what the other leaves contribute.
//
//vp:bounds regex trees of depth <= 2, width <= 2 (at most 4 FieldRegex leaves on distinct fields f0..f3 with the literal pattern p, or empty-field leaves); the row is an object holding, per leaf, no member / a member whose text lacks p / a member whose text is p; regexp.Compile succeeds
//vp:maxpaths 600000
func H_C25_regex_trees_evaluate_as_written_on_real_rows() {
	c := &vpTreeCtx{filter: vpNewBloom()}
	tree, truth := vpRegexTree(c, 2, 2)
	crq, err := compileRegexQuery(&RegexQuery{Expression: &tree})
	vpAssume(err == nil)
	root := &vpNode{Kind: 1}
	for i, t := range c.truths {
		switch {
		case t:
			root.Kids = append(root.Kids, &vpNode{Key: vpLeafName(i), Type: gjson.String, Text: "p"})
		case nondetBool():
			root.Kids = append(root.Kids, &vpNode{Key: vpLeafName(i), Type: gjson.String, Text: "q"})
		}
	}
	m := compileRowMatcher(&BloomQuery{}, crq, ".", BasicWhitespaceLowerTokenizer)
	scratch := newRowMatchScratch(m)
	// matchRowBytes' own gate (the row here is an abstract gjson value, so its two constant cases
	// are taken from the matcher's flags exactly as matchRowBytes does; match is never entered
	// with them set)
	var got bool
	switch {
	case m.matchesAll:
		got = true
	case m.neverMatches:
		got = false
	default:
		got = m.match(vpToGJSON(root), scratch)
	}
	vpAssert(got == truth, "C25: the row matcher's verdict on a row is not the nested boolean combination of the regex tree's leaves")
}

// Prefilter constructors.
func vpPrefTree(p byte, depth, width int) (PrefilterExpression, bool) {
	if depth == 0 || nondetBool() {
		switch nondetChoice(3) {
		case 0:
			v := nondetU8()
			return Partition(PartitionEquals(string([]byte{v}))), p == v
		case 1:
			return PrefilterExpression{ExpressionType: PrefilterExpressionCondition}, true
		}
		return PrefilterExpression{ExpressionType: "BOGUS"}, false
	}
	n := nondetChoice(width + 1)
	isAnd := nondetBool()
	raw := vpThorough() && nondetBool() // quick tier: inner nodes always go through the constructors
	var kids []PrefilterExpression
	truth := isAnd
	for i := 0; i < n; i++ {
		k, t := vpPrefTree(p, depth-1, width)
		kids = append(kids, k)
		if isAnd {
			truth = vpAnd(truth, t)
		} else {
			truth = vpOr(truth, t)
		}
	}
	switch {
	case isAnd && raw:
		return PrefilterExpression{ExpressionType: PrefilterExpressionAnd, Children: kids}, truth
	case isAnd:
		return PrefilterAnd(kids...), truth
	case raw:
		return PrefilterExpression{ExpressionType: PrefilterExpressionOr, Children: kids}, truth
	}
	return PrefilterOr(kids...), truth
}

//vp:bounds prefilter trees of depth <= 2, width <= 2 over partition-equality leaves with symbolic 1-byte operands, nil and unknown leaves
//vp:maxpaths 600000
func H_C25_prefilter_trees_mean_what_they_say() {
	p := nondetU8()
	tree, truth := vpPrefTree(p, 2, 2)
	md := &DataBlockMetadata{PartitionID: string([]byte{p})}
	vpAssert(EvaluateDataBlockMetadata(md, &QueryPrefilter{Expression: &tree}) == truth, "C25: prefilter evaluator disagrees with the nested boolean meaning of the tree")
}

// Builder chains: calls before Build are ANDed; calls after Match(e) are ANDed with e.
//
//vp:bounds builder chains of <= 3 calls drawn from Field/Token/FieldToken/Match(tree of depth 1); Match after implicit calls excluded (undocumented)
//vp:maxpaths 600000
func H_C25_builder_chains() {
	c := &vpTreeCtx{filter: vpNewBloom()}
	qb := NewQuery()
	truth := true
	n := nondetChoice(4)
	implicitSeen := false
	var kinds []rowConditionKind
	for i := 0; i < n; i++ {
		switch nondetChoice(4) {
		case 0:
			name := vpLeafName(c.n)
			c.n++
			t := nondetBool()
			c.truths = append(c.truths, t)
			kinds = append(kinds, rowCondField)
			qb.Field(name)
			truth = vpAnd(truth, t)
			implicitSeen = true
		case 1:
			c.n++
			t := nondetBool()
			c.truths = append(c.truths, t)
			kinds = append(kinds, rowCondToken)
			qb.Token("tok")
			truth = vpAnd(truth, t)
			implicitSeen = true
		case 2:
			c.n++
			t := nondetBool()
			c.truths = append(c.truths, t)
			kinds = append(kinds, rowCondFieldToken)
			qb.FieldToken("a", "tok")
			truth = vpAnd(truth, t)
			implicitSeen = true
		default:
			vpAssume(!implicitSeen && i == 0)
			before := len(c.truths)
			tree, t := vpBloomTree(c, 1, 2)
			for j := before; j < len(c.truths); j++ {
				kinds = append(kinds, rowCondField)
			}
			qb.Match(tree)
			truth = t
		}
	}
	q := qb.Build()
	m := compileRowMatcher(q.Bloom, nil, ".", BasicWhitespaceLowerTokenizer)
	vpAssert(len(m.conditions) == len(c.truths), "C25: the builder lost or invented a condition")
	sat := make([]bool, len(m.conditions))
	for i := range sat {
		vpAssert(m.conditions[i].kind == kinds[i], "C25: builder conditions out of order")
		sat[i] = c.truths[i]
	}
	vpAssert(evalMatcherNode(&m.root, sat) == truth, "C25: builder chain does not evaluate as the conjunction of its calls")
}

// Two builder chains seeded from one shared expression stay independent, and the shared tree is
// left as it was: a group whose Children slice has spare capacity (as flattening or JSON decoding
// produce) must not be grown in place by a chained call. The trees are evaluated through the
// compiled matcher, so any aliasing between the two queries shows as a wrong condition list.
//
//vp:bounds a shared AND / OR group of 2 Field leaves whose Children slice has spare capacity 0..2; two chains Match(shared).<Field|Token|FieldToken>; evaluated after both were built; same for MatchRegex/FieldRegex
func H_C25_builder_chains_sharing_a_tree_are_independent() {
	spare := nondetChoice(3)
	kids := make([]BloomExpression, 2, 2+spare)
	t0, t1 := nondetBool(), nondetBool()
	kids[0], kids[1] = Field("f0"), Field("f1")
	shared := BloomExpression{ExpressionType: BloomExpressionAnd, Children: kids}
	sharedTruth := vpAnd(t0, t1)
	if nondetBool() {
		shared.ExpressionType = BloomExpressionOr
		sharedTruth = vpOr(t0, t1)
	}
	chain := func(k int) (*Query, rowConditionKind) {
		qb := NewQuery().Match(shared)
		switch k {
		case 0:
			return qb.Field("g").Build(), rowCondField
		case 1:
			return qb.Token("tok").Build(), rowCondToken
		}
		return qb.FieldToken("a", "tok").Build(), rowCondFieldToken
	}
	k1 := nondetChoice(3)
	k2 := nondetChoice(3)
	q1, kind1 := chain(k1)
	q2, kind2 := chain(k2)
	x1, x2 := nondetBool(), nondetBool()
	check := func(q *Query, kind rowConditionKind, x bool) {
		m := compileRowMatcher(q.Bloom, nil, ".", BasicWhitespaceLowerTokenizer)
		vpAssert(len(m.conditions) == 3, "C25: a chained builder call lost or invented a condition")
		vpAssert(m.conditions[0].field == "f0" && m.conditions[1].field == "f1" && m.conditions[2].kind == kind, "C25: a query built from a shared expression does not hold its own chained condition")
		vpAssert(evalMatcherNode(&m.root, []bool{t0, t1, x}) == vpAnd(sharedTruth, x), "C25: builder chain does not evaluate as Match(e) AND its chained call")
	}
	check(q1, kind1, x1)
	check(q2, kind2, x2)
	vpAssert(len(shared.Children) == 2 && len(kids) == 2, "C25: building a query changed the caller's expression")
	ms := compileRowMatcher(&BloomQuery{Expression: &shared}, nil, ".", BasicWhitespaceLowerTokenizer)
	vpAssert(len(ms.conditions) == 2 && evalMatcherNode(&ms.root, []bool{t0, t1}) == sharedTruth, "C25: building a query changed the meaning of the caller's expression")
	// the spare capacity of the caller's slice must not have been written either
	full := kids[:cap(kids)]
	for i := 2; i < len(full); i++ {
		vpAssert(full[i].ExpressionType == "" && full[i].Condition == nil && full[i].Children == nil, "C25: a chained builder call wrote into the caller's slice")
	}
}

//vp:bounds as above for MatchRegex / FieldRegex (regexp.Compile succeeds)
func H_C25_regex_builder_chains_sharing_a_tree_are_independent() {
	spare := nondetChoice(3)
	kids := make([]RegexExpression, 2, 2+spare)
	kids[0], kids[1] = FieldRegex("f0", "a"), FieldRegex("f1", "b")
	shared := RegexExpression{ExpressionType: RegexExpressionAnd, Children: kids}
	if nondetBool() {
		shared.ExpressionType = RegexExpressionOr
	}
	q1 := NewQuery().MatchRegex(shared).FieldRegex("g1", "c").Build()
	q2 := NewQuery().MatchRegex(shared).FieldRegex("g2", "d").Build()
	last := func(q *Query) string {
		e := q.Regex.Expression
		vpAssert(e != nil && e.ExpressionType == RegexExpressionAnd && len(e.Children) >= 2, "C25: MatchRegex(e).FieldRegex(..) is not an AND group")
		l := e.Children[len(e.Children)-1]
		vpAssert(l.Condition != nil, "C25: chained regex condition missing")
		return l.Condition.Field
	}
	vpAssert(last(q1) == "g1" && last(q2) == "g2", "C25: a regex query built from a shared expression does not hold its own chained condition")
	vpAssert(len(shared.Children) == 2, "C25: building a regex query changed the caller's expression")
	full := kids[:cap(kids)]
	for i := 2; i < len(full); i++ {
		vpAssert(full[i].ExpressionType == "" && full[i].Condition == nil && full[i].Children == nil, "C25: a chained builder call wrote into the caller's regex slice")
	}
}
