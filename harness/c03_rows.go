package bloomsearch

import (
	"errors"
	"io"
)

// ---------------------------------------------------------------------------------------------
// C03 — returned rows are independent of the engine's buffers (the decided part; equality of the
// decoded value with encoding/json's is not decided, see DESIGN).
//   (1) typestate of pooled scan buffers in the real readPooledBlockRowData: every buffer taken
//       from the pool is given back at most once on every path, the buffer that backs the returned
//       row data is given back only by release(), and exactly once;
//   (2) pool arithmetic of the real getScanBuffer / putScanBuffer for every size: no panic, the
//       slice handed out has the requested length, a pooled buffer is filed under a class whose
//       requests it can serve;
//   (3) the real processDataBlock never hands a row view to the matcher after the block buffer was
//       released and releases it exactly once on every exit path;
//   (4) the real materializeRow parses an independent copy of the row bytes, never a view of them.
// ---------------------------------------------------------------------------------------------

type vpTrackedBuf struct {
	buf  []byte
	puts int
}

var vpBufs []*vpTrackedBuf

func vpGetTracked(size int) []byte {
	if size <= 0 {
		return nil
	}
	b := make([]byte, size, size+2)
	vpBufs = append(vpBufs, &vpTrackedBuf{buf: b})
	return b
}

func vpPutTracked(buf []byte) {
	if cap(buf) == 0 {
		return
	}
	full := buf[:1]
	for _, t := range vpBufs {
		if &t.buf[0] == &full[0] {
			t.puts++
			vpAssert(t.puts <= 1, "C03: a pooled buffer was returned to the pool twice (two later readers would share it)")
			return
		}
	}
}

// decodeBlockRowDataInto stand-in: the CRC / decompression fails, or yields row data — the
// compressed buffer itself for CompressionNone, dst filled for a compressed block (as the real one).
func vpDecodeStub(dst []byte, compressed []byte, block *DataBlockMetadata) ([]byte, error) {
	if nondetBool() {
		return nil, errors.New("row data hash mismatch")
	}
	if normalizeCompression(block.Compression) == CompressionNone {
		return compressed, nil
	}
	if cap(dst) >= block.UncompressedSize {
		return dst[:block.UncompressedSize], nil
	}
	return make([]byte, block.UncompressedSize), nil
}

//vp:override bs.getScanBuffer=vpGetTracked
//vp:override bs.putScanBuffer=vpPutTracked
//vp:override bs.decodeBlockRowDataInto=vpDecodeStub
//vp:bounds a block of 0..4 stored bytes with CompressionNone / "" / snappy / zstd, uncompressed size 0..6; the file is long enough or too short (read fails); CRC / decompression fails or succeeds
func H_C03_pooled_buffers_are_given_back_at_most_once() {
	vpBufs = nil
	size := nondetChoice(5)
	fileLen := nondetChoice(6)
	f := &vpSymFile{data: make([]byte, fileLen), minOff: -1}
	blk := &DataBlockMetadata{RowDataOffset: 0, RowDataSize: size, UncompressedSize: nondetChoice(7), HasRowDataHash: true}
	switch nondetChoice(4) {
	case 0:
		blk.Compression = CompressionNone
	case 1:
		blk.Compression = ""
	case 2:
		blk.Compression = CompressionSnappy
	default:
		blk.Compression = CompressionZstd
	}
	rowData, release, err := readPooledBlockRowData(f, blk)
	if err != nil {
		vpAssert(rowData == nil && release == nil, "C19: a failed block read returned data")
		for _, t := range vpBufs {
			vpAssert(t.puts == 1, "C03: after a failed read a scan buffer was leaked or returned twice")
		}
		return
	}
	// the buffer backing the row data is still out; every other buffer is back exactly once
	for _, t := range vpBufs {
		backing := len(rowData) > 0 && &t.buf[0] == &rowData[:1][0]
		if backing {
			vpAssert(t.puts == 0, "C03: the buffer backing the row data was returned to the pool before the scan released it")
		} else {
			vpAssert(t.puts <= 1, "C03: a scan buffer was returned twice")
		}
	}
	release()
	for _, t := range vpBufs {
		vpAssert(t.puts <= 1, "C03: release returned a buffer that was already back in the pool")
		if len(rowData) > 0 && &t.buf[0] == &rowData[:1][0] {
			vpAssert(t.puts == 1, "C03: release did not give the row data buffer back")
		}
	}
}

//vp:bounds requested sizes <= 2^13 (pool classes 2^10..2^13, non-positive sizes included) and in (2^26, 2^27) (unpooled), one get / put / get sequence against an empty pool (or items dropped by the garbage collector)
func H_C03_scan_buffer_pool_arithmetic() {
	size := nondetInt()
	// classes 2^10..2^13 and the unpooled range above 2^26; the classes in between differ only in
	// the shift value and would make the executor build arrays of up to 2^26 elements
	vpAssume(size <= 1<<13 || (size > 1<<26 && size < 1<<27))
	b1 := getScanBuffer(size)
	if size <= 0 {
		vpAssert(b1 == nil, "C03: a non-positive request returned a buffer")
		return
	}
	vpAssert(len(b1) == size && cap(b1) >= size, "C03: the pool handed out a buffer of the wrong length")
	putScanBuffer(b1)
	size2 := nondetInt()
	vpAssume(size2 > 0 && (size2 <= 1<<13 || (size2 > 1<<26 && size2 < 1<<27)))
	b2 := getScanBuffer(size2) // must not panic: a pooled buffer serves only requests it is large enough for
	vpAssert(len(b2) == size2 && cap(b2) >= size2, "C03: a recycled buffer was handed out for a request it cannot hold")
}

var (
	vpReleased   int
	vpUseAfterRe bool
)

func vpReadRowDataTracked(file io.ReadSeeker, block *DataBlockMetadata) ([]byte, func(), error) {
	if nondetBool() {
		return nil, nil, errors.New("read failed")
	}
	return vpScanData, func() { vpReleased++ }, nil
}

func vpMatchTracked(m *compiledRowMatcher, rowBytes []byte, scratch *rowMatchScratch) bool {
	if vpReleased > 0 {
		vpUseAfterRe = true
	}
	return nondetBool()
}

func vpMaterializeTracked(rowBytes []byte) (map[string]any, error) {
	if vpReleased > 0 {
		vpUseAfterRe = true
	}
	if nondetBool() {
		return nil, errors.New("row is not a JSON object")
	}
	// every materialization yields its own value: a serial number and a nested container of its own
	vpMaterialized++
	return map[string]any{"#": vpMaterialized, "nested": []any{vpMaterialized}}, nil
}

var vpMaterialized int

// maps.Clone at the row type (harness-Go model of the generic library function: a shallow copy)
func vpModel_maps_Clone(m map[string]any) map[string]any {
	if m == nil {
		return nil
	}
	out := make(map[string]any, len(m))
	for k, v := range m {
		out[k] = v
	}
	return out
}

//vp:override bs.readPooledBlockRowData=vpReadRowDataTracked
//vp:override (*bs.compiledRowMatcher).matchRowBytes=vpMatchTracked
//vp:override bs.materializeRow=vpMaterializeTracked
//vp:bounds one block of 0..2 rows optionally followed by a truncated length prefix; open / read / materialize fail or succeed arbitrarily; matcher verdict arbitrary; cancellation at any context observation or never
func H_C03_block_buffer_is_released_once_and_never_used_afterwards() {
	w := vpNewWorld()
	w.openMaySucceed = true
	ctx := &vpCancelCtx{may: nondetBool(), done: make(chan struct{})}
	r := &Results{ctx: ctx, callerCtx: ctx, rowChan: make(chan []map[string]any, queryRowBatchBuffer)}
	slot := &querySlot{sem: make(chan struct{}, 1), ctx: ctx}
	vpAssume(slot.acquire())
	pool := newFileHandlePool(&vpStore{w})
	ptr := vpPointer(0)
	pool.retain(ptr)
	k := nondetChoice(3)
	vpScanData = nil
	for i := 0; i < k; i++ {
		vpScanData = append(vpScanData, 2, 0, 0, 0, '{', '}')
	}
	if nondetBool() {
		vpScanData = append(vpScanData, 9, 0)
	}
	vpReleased, vpUseAfterRe, vpMaterialized = 0, false, 0
	opened := false
	job := dataBlockJob{filePointer: ptr, blockMetadata: DataBlockMetadata{RowDataOffset: 700, RowDataSize: 50, Rows: k}}
	(&BloomSearchEngine{}).processDataBlock(r, slot, pool, job, &compiledRowMatcher{}, nil)
	opened = w.count(evOpenOK, -1) > 0
	// every delivered row comes from a materialization of its own (rows never share mutable state:
	// identical stored rows are still parsed separately), in scan order
	delivered := 0
	for len(r.rowChan) > 0 {
		for _, row := range <-r.rowChan {
			delivered++
			serial, _ := row["#"].(int)
			vpAssert(serial == delivered, "C03: a delivered row is not the product of its own materialization (two returned rows share nested values, or a row was reordered / dropped)")
		}
	}
	vpAssert(delivered <= vpMaterialized, "C03: more rows delivered than materialized")
	vpAssert(!vpUseAfterRe, "C03: a row view of the block buffer was used after the buffer had been released")
	vpAssert(vpReleased <= 1, "C03: the block buffer was released twice")
	if opened && !vpReadFailedTracked() {
		vpAssert(vpReleased == 1, "C03: the block buffer was not released when the scan ended")
	}
}

func vpReadFailedTracked() bool { return vpReleased == 0 }

//vp:bounds a row of arbitrary abstract JSON (object or not) held in a buffer
func H_C03_materialized_rows_are_parsed_from_a_copy() {
	node := vpSmallRow()
	rowBytes := vpRowBytes(node)
	vpParseSawView(false)
	row, err := materializeRow(rowBytes)
	independent := !vpParseSawView(true)
	if !vpSymbolic() && row != nil {
		// natively: overwrite the buffer the row was scanned from and look at the delivered value
		before, _ := row["a"].(string)
		for i := range rowBytes {
			rowBytes[i] = '#'
		}
		after, _ := row["a"].(string)
		independent = before == "x" && after == "x"
	}
	if row != nil { // nothing is delivered for a row that is not an object
		vpAssert(independent, "C03: a delivered row is materialized from a view of the scan buffer instead of a copy")
	}
	vpAssert((row != nil) == (err == nil), "C03: materializeRow returned neither a row nor an error")
}

// The filter cursor's chunk buffers: taken from the pool per chunk, given back at most once each
// on every path — a failed read of a later chunk included — by readChunkFrom and release together.
//
//vp:override bs.getScanBuffer=vpGetTracked
//vp:override bs.putScanBuffer=vpPutTracked
//vp:override bs.parseFilterSection=vpParseSectionStub
//vp:bounds 2 blocks whose filter sections lie in one chunk or (more than 4 MiB apart) in two chunks; the file is long enough for both, or ends before the second (the read of the later chunk fails); each section parses or is malformed; then the cursor is released, once
func H_C03_filter_chunk_buffers_are_given_back_at_most_once() {
	vpBufs = nil
	far := nondetBool()
	off2 := 8
	if far {
		off2 = blockFilterChunkTarget + 64
	}
	blocks := []DataBlockMetadata{
		{RowDataOffset: 0, BloomFilterOffset: 0, BloomFilterSize: 4},
		{RowDataOffset: 1, BloomFilterOffset: off2, BloomFilterSize: 4},
	}
	fileLen := off2 + 4
	if nondetBool() {
		fileLen = 6 // the file ends before the second section: reading it fails
	}
	f := &vpSparseFile{size: int64(fileLen)}
	c := blockFilterCursor{file: f, blocks: blocks, regionStart: 0, regionEnd: int64(off2 + 4)}
	for i := range blocks {
		_, _, readFailed, _ := c.filtersFor(i)
		if readFailed {
			break
		}
	}
	c.release()
	for _, t := range vpBufs {
		vpAssert(t.puts <= 1, "C03: a filter chunk buffer was returned to the pool twice")
		vpAssert(t.puts == 1, "C03: a filter chunk buffer was never returned to the pool")
	}
}

// vpSparseFile: a file of a given size whose content is all zero (only extents matter here).
type vpSparseFile struct {
	size int64
	pos  int64
}

func (f *vpSparseFile) Seek(off int64, whence int) (int64, error) {
	switch whence {
	case io.SeekStart:
		f.pos = off
	case io.SeekEnd:
		f.pos = f.size + off
	default:
		f.pos += off
	}
	return f.pos, nil
}
func (f *vpSparseFile) Read(p []byte) (int, error) {
	if f.pos >= f.size {
		return 0, io.EOF
	}
	n := int64(len(p))
	if rem := f.size - f.pos; rem < n {
		n = rem
	}
	f.pos += n
	return int(n), nil
}
func (f *vpSparseFile) Close() error { return nil }

// bytes.Equal (harness-Go model: its own definition)
func vpModel_bytes_Equal(a, b []byte) bool { return string(a) == string(b) }
