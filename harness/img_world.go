package bloomsearch

import (
	"context"
	"errors"
	"fmt"
	"hash"
	"hash/crc32"
	"io"
	"io/fs"
	"iter"
	"log/slog"
	"sort"
	"time"
)

// ---------------------------------------------------------------------------------------------
// The "image world": an in-memory DataStore whose files are byte slices and a MetaStore that
// applies Update, so that the real write path (processIngestRequest -> handleFlush ->
// WriteFileFooter) and the real merge path (Merge -> executeMergeGroup -> processPartitionBlocks ->
// mergeDataBlocks / copyDataBlock) produce file images that the real read path
// (ReadFileMetadata, validate, ReadDataBlockRowData, BlockRowScanner) then reads back.
// Used by C11, C17, C18, C26. CompressionNone only; bloom filter construction and the filter
// section codec are recorded/stubbed (library code); CRC32C is computed for concrete bytes.
// ---------------------------------------------------------------------------------------------

type vpImgStore struct {
	files    map[int][]byte
	nCreated int
	opens    int
}

func vpNoSuchFile() error { return fmt.Errorf("open: %w", fs.ErrNotExist) }

type vpImgWriter struct {
	s   *vpImgStore
	id  int
	buf []byte
}

func (f *vpImgWriter) Write(p []byte) (int, error) {
	f.buf = append(f.buf, p...)
	return len(p), nil
}
func (f *vpImgWriter) Close() error { f.s.files[f.id] = f.buf; return nil }
func (f *vpImgWriter) Abort() error { return nil }

func (s *vpImgStore) CreateFile(ctx context.Context) (io.WriteCloser, []byte, error) {
	id := s.nCreated
	s.nCreated++
	return &vpImgWriter{s: s, id: id}, vpPointer(id), nil
}
func (s *vpImgStore) OpenFile(ctx context.Context, p []byte) (io.ReadSeekCloser, error) {
	data, ok := s.files[vpFileID(p)]
	if !ok {
		return nil, vpNoSuchFile() // what os.Open reports for a tombstoned file: an error wrapping fs.ErrNotExist
	}
	s.opens++
	return &vpSymFile{data: data, minOff: -1}, nil
}
func (s *vpImgStore) TombstoneFile(ctx context.Context, p []byte) error {
	delete(s.files, vpFileID(p))
	return nil
}

type vpImgMeta struct {
	files   []MaybeFile
	updates int
}

func (m *vpImgMeta) GetMaybeFilesForQuery(ctx context.Context, q *QueryPrefilter) iter.Seq2[MaybeFile, error] {
	return func(yield func(MaybeFile, error) bool) {
		for _, f := range m.files {
			if !yield(f, nil) {
				return
			}
		}
	}
}
func (m *vpImgMeta) Update(ctx context.Context, writes []WriteOperation, deletes []DeleteOperation) error {
	m.updates++
	var keep []MaybeFile
	for _, f := range m.files {
		del := false
		for _, d := range deletes {
			if vpFileID(d.FilePointerBytes) == vpFileID(f.PointerBytes) {
				del = true
			}
		}
		if !del {
			keep = append(keep, f)
		}
	}
	for _, w := range writes {
		keep = append(keep, MaybeFile{PointerBytes: w.FilePointerBytes, Metadata: *w.FileMetadata})
	}
	m.files = keep
	return nil
}

// hash/crc32.New and io.MultiWriter as harness Go models (natively the library code runs).
type vpCRC32 struct {
	tab *crc32.Table
	buf []byte
}

func (h *vpCRC32) Write(p []byte) (int, error) { h.buf = append(h.buf, p...); return len(p), nil }
func (h *vpCRC32) Sum32() uint32               { return crc32.Checksum(h.buf, h.tab) }
func (h *vpCRC32) Sum(b []byte) []byte         { return b }
func (h *vpCRC32) Reset()                      { h.buf = nil }
func (h *vpCRC32) Size() int                   { return 4 }
func (h *vpCRC32) BlockSize() int              { return 1 }

func vpModel_hash_crc32_New(tab *crc32.Table) hash.Hash32 { return &vpCRC32{tab: tab} }

type vpMultiWriter struct{ ws []io.Writer }

func (m *vpMultiWriter) Write(p []byte) (int, error) {
	for _, w := range m.ws {
		if _, err := w.Write(p); err != nil {
			return 0, err
		}
	}
	return len(p), nil
}
func vpModel_io_MultiWriter(ws ...io.Writer) io.Writer { return &vpMultiWriter{ws: ws} }

// ---- recorders standing in for the bloom library ----

type vpIndexCall struct {
	set *bloomEntrySets
	row string
}

type vpBuildCall struct {
	set  *bloomEntrySets
	rows []string // the set's token keys (= the texts of the rows indexed into it), sorted
	rate float64
}

var (
	vpIndexCalls []vpIndexCall
	vpBuildCalls []vpBuildCall
)

// indexRow stand-in: records the call and enters the row's text as a token (and one field), so an
// entry set carries exactly the rows that were indexed into it.
func vpIndexRowRec(s *bloomEntrySets, rowBytes []byte, tokenizer ValueTokenizerFunc) {
	vpIndexCalls = append(vpIndexCalls, vpIndexCall{s, string(rowBytes)})
	s.fields["f"] = struct{}{}
	// like a tokenizer that returns substrings of its input: the key is a view of the row bytes
	// indexRow was handed (the engine's own walker hands tokenizers such views)
	s.tokens[unsafeString(rowBytes)] = struct{}{}
}

func vpBuildFiltersRec(s *bloomEntrySets, rate float64) BloomFilters {
	var rows []string
	for k := range s.tokens {
		rows = append(rows, string([]byte(vpRefreshView(k)))) // what the key reads as at this moment, copied
	}
	sort.Strings(rows)
	vpBuildCalls = append(vpBuildCalls, vpBuildCall{s, rows, rate})
	return BloomFilters{}
}

// filter sections: 3..4 bytes of arbitrary content, or — for a whole run, chosen once
// (vpNoFilterSections) — none at all: the format's "no filter section" (size 0), what a writer that
// stores no filters produces. Parsing a section back always succeeds.
var vpNoFilterSections bool

func vpEncodeSectionVar(f *BloomFilters) ([]byte, error) {
	if vpNoFilterSections {
		return nil, nil
	}
	if nondetBool() {
		return []byte{nondetU8(), 2, 3}, nil
	}
	return []byte{nondetU8(), 2, 3, 4}, nil
}
func vpParseSectionOK(section []byte) (*BloomFilters, error) { return &BloomFilters{}, nil }

type vpImgWorld struct {
	store *vpImgStore
	meta  *vpImgMeta
	b     *BloomSearchEngine
}

func vpNewImgWorld() *vpImgWorld {
	iw := &vpImgWorld{store: &vpImgStore{files: map[int][]byte{}}, meta: &vpImgMeta{}}
	iw.b = &BloomSearchEngine{
		config: BloomSearchEngineConfig{BloomFalsePositiveRate: 0.01, RowDataCompression: CompressionNone, Tokenizer: BasicWhitespaceLowerTokenizer,
			MaxRowGroupRows: 1000, MaxRowGroupBytes: 1 << 20, MaxBufferedRows: 1000, MaxBufferedBytes: 1 << 20, MaxBufferedTime: time.Hour,
			MaxFileSize: 1 << 30, MaxFilesToMergePerOperation: 10, MinMaxIndexes: []string{"u", "v"}, PartitionFunc: vpPartitionByP},
		metaStore: iw.meta, dataStore: iw.store, logger: slog.New(slog.DiscardHandler),
	}
	vpIndexCalls, vpBuildCalls = nil, nil
	return iw
}

type vpRowSpec struct {
	id    string
	part  string
	v     int
	hasV  bool
	uKind int // the other configured minmax key "u": 0 absent, 1 a non-numeric value, 2 the number uVal
	uVal  int
}

func (r vpRowSpec) toMap() map[string]any {
	m := map[string]any{"id": r.id, "p": r.part}
	if r.hasV {
		m["v"] = r.v
	}
	switch r.uKind {
	case 1:
		m["u"] = "none"
	case 2:
		m["u"] = r.uVal
	}
	return m
}

// text is the JSON the row is stored as (keys sorted, as encoding/json writes maps).
func (r vpRowSpec) text() string {
	s := `{"id":"` + r.id + `","p":"` + r.part + `"`
	switch r.uKind {
	case 1:
		s += `,"u":"none"`
	case 2:
		s += `,"u":` + vpItoa(r.uVal)
	}
	if r.hasV {
		s += `,"v":` + vpItoa(r.v)
	}
	return s + "}"
}

func vpItoa(v int) string {
	if v == 0 {
		return "0"
	}
	neg := v < 0
	if neg {
		v = -v
	}
	s := ""
	for v > 0 {
		s = string(rune('0'+v%10)) + s
		v /= 10
	}
	if neg {
		s = "-" + s
	}
	return s
}

// flushRows runs the real ingest step and the real flush for one batch and returns the file's id.
func (iw *vpImgWorld) flushRows(rows []vpRowSpec) int {
	maps := make([]map[string]any, len(rows))
	for i, r := range rows {
		maps[i] = r.toMap()
	}
	bufs := map[string]*partitionBuffer{}
	var waiters []chan error
	rc, bc := 0, 0
	var started time.Time
	d := make(chan error, 2)
	vpSetClock(2) // no time passes: the batch stays buffered until the harness flushes it
	iw.b.processIngestRequest(context.Background(), &ingestRequest{rows: maps, doneChan: d}, bufs, &waiters, &rc, &bc, &started)
	vpAssert(len(d) == 0 && len(waiters) == 1, "harness: the batch was not buffered")
	before := iw.store.nCreated
	iw.b.handleFlush(context.Background(), flushRequest{partitionBuffers: bufs, doneChans: waiters})
	vpAssert(len(d) == 1 && <-d == nil, "C06: a fault-free flush was not acknowledged nil")
	vpAssert(iw.store.nCreated == before+1, "harness: flush did not create exactly one file")
	return before
}

// flushRowsInto: as flushRows, against whatever MetaStore the engine is configured with.
func (iw *vpImgWorld) flushRowsInto(rows []vpRowSpec) {
	maps := make([]map[string]any, len(rows))
	for i, r := range rows {
		maps[i] = r.toMap()
	}
	bufs := map[string]*partitionBuffer{}
	var waiters []chan error
	rc, bc := 0, 0
	var started time.Time
	d := make(chan error, 2)
	vpSetClock(2)
	iw.b.processIngestRequest(context.Background(), &ingestRequest{rows: maps, doneChan: d}, bufs, &waiters, &rc, &bc, &started)
	iw.b.handleFlush(context.Background(), flushRequest{partitionBuffers: bufs, doneChans: waiters})
	vpAssert(len(d) == 1 && <-d == nil, "C06: a fault-free flush was not acknowledged nil")
}

func (iw *vpImgWorld) metadataOf(id int) *FileMetadata {
	for i := range iw.meta.files {
		if vpFileID(iw.meta.files[i].PointerBytes) == id {
			return &iw.meta.files[i].Metadata
		}
	}
	return nil
}

// readBlockRows reads a block back through the real read path and returns its rows' texts.
func (iw *vpImgWorld) readBlockRows(id int, blk *DataBlockMetadata) []string {
	f, err := iw.store.OpenFile(context.Background(), vpPointer(id))
	vpAssert(err == nil, "C17: a committed file cannot be opened")
	data, err := ReadDataBlockRowData(f, blk)
	vpAssert(err == nil, "C17: a block of a freshly written file does not read back (extent, size, CRC or compression tag in its metadata is wrong)")
	sc := NewBlockRowScanner(data)
	var out []string
	total := 0
	for {
		row, ok, err := sc.Next()
		vpAssert(err == nil, "C17: the row framing of a freshly written block is broken")
		if !ok {
			break
		}
		out = append(out, string(row))
		total += len(row) + LengthPrefixSize
	}
	vpAssert(len(out) == blk.Rows, "C17: the block's metadata row count differs from the rows stored in it")
	vpAssert(total == blk.UncompressedSize, "C17: the block's UncompressedSize differs from its stored rows")
	vpAssert(blk.HasRowDataHash && (blk.Compression == CompressionNone || blk.Compression == iw.b.config.RowDataCompression), "C17: the block's metadata does not state its hash / compression")
	return out
}

// checkFileDescribesItself: C17's obligations for one committed file.
func (iw *vpImgWorld) checkFileDescribesItself(id int) {
	md := iw.metadataOf(id)
	vpAssert(md != nil, "C06: the flushed file is not referenced by the MetaStore")
	img := iw.store.files[id]
	off := 0
	for i := range md.DataBlocks {
		blk := &md.DataBlocks[i]
		vpAssert(blk.RowDataOffset == off && blk.RowDataSize >= 0, "C17: block row data extents are not contiguous from offset 0 in writing order")
		off += blk.RowDataSize
	}
	vpAssert(md.BlockFilterRegionOffset == off, "C17: the block filter region offset is not where the row data ends")
	sec := md.BlockFilterRegionOffset
	for i := range md.DataBlocks {
		blk := &md.DataBlocks[i]
		vpAssert(blk.BloomFilterSize >= 0 && (blk.BloomFilterSize == 0 || blk.BloomFilterOffset == sec), "C17: a block's filter section is not where the writer put it inside the region")
		sec += blk.BloomFilterSize
	}
	vpAssert(md.BlockFilterRegionSize == sec-md.BlockFilterRegionOffset, "C17: the block filter region size is not the sum of its sections")
	// the footer reads back to the same description and validates
	f, _ := iw.store.OpenFile(context.Background(), vpPointer(id))
	rd, size, err := ReadFileMetadata(f)
	vpAssert(err == nil, "C17: the footer of a freshly written file does not read back / validate")
	vpAssert(size == int64(len(img)), "C17: ReadFileMetadata reports a wrong file size")
	vpAssert(rd.BlockFilterRegionOffset == md.BlockFilterRegionOffset && rd.BlockFilterRegionSize == md.BlockFilterRegionSize && len(rd.DataBlocks) == len(md.DataBlocks), "C17: the footer describes a different layout than the metadata committed to the MetaStore")
	for i := range md.DataBlocks {
		a, b := &rd.DataBlocks[i], &md.DataBlocks[i]
		vpAssert(a.RowDataOffset == b.RowDataOffset && a.RowDataSize == b.RowDataSize && a.BloomFilterOffset == b.BloomFilterOffset && a.BloomFilterSize == b.BloomFilterSize &&
			a.Rows == b.Rows && a.UncompressedSize == b.UncompressedSize && a.RowDataHash == b.RowDataHash && a.PartitionID == b.PartitionID, "C17: a block in the footer differs from the committed metadata")
	}
	vpAssert(rd.BloomEntryCounts == md.BloomEntryCounts, "C17: entry counts in the footer differ from the committed metadata")
}

func vpSameMultiset(a, b []string) bool {
	if len(a) != len(b) {
		return false
	}
	x := append([]string(nil), a...)
	y := append([]string(nil), b...)
	sort.Strings(x)
	sort.Strings(y)
	for i := range x {
		if x[i] != y[i] {
			return false
		}
	}
	return true
}

// a constant 5-byte filter section (file images with fully concrete bytes)
func vpEncodeSectionConst(f *BloomFilters) ([]byte, error) { return []byte{9, 2, 3, 4, 5}, nil }

// A stand-in codec for "snappy" (the real codecs are library code the executor does not run): the
// encoder writes one marker byte and then the rows as they are; the decoder — a stand-in for
// decodeBlockRowDataInto that repeats its hash check and its dispatch on the block's OWN tag —
// demands and strips the marker. A block whose tag does not say how its bytes were really encoded
// therefore fails to read back, exactly as with the real codecs.
type vpTagWriter struct {
	dst   io.Writer
	wrote bool
}

func (t *vpTagWriter) Write(p []byte) (int, error) {
	if !t.wrote {
		t.wrote = true
		if _, err := t.dst.Write([]byte{0xEE}); err != nil {
			return 0, err
		}
	}
	return t.dst.Write(p)
}

func vpCreateCompressionWriterTagged(b *BloomSearchEngine, dest io.Writer) (*compressionEncoders, error) {
	if b.config.RowDataCompression == CompressionSnappy {
		return &compressionEncoders{writer: &vpTagWriter{dst: dest}}, nil
	}
	return &compressionEncoders{writer: dest}, nil
}

func vpDecodeTagged(dst []byte, compressed []byte, block *DataBlockMetadata) ([]byte, error) {
	if block.HasRowDataHash && crc32.Checksum(compressed, crc32cTable) != block.RowDataHash {
		return nil, errors.New("row data hash mismatch")
	}
	switch normalizeCompression(block.Compression) {
	case CompressionNone:
		return compressed, nil
	case CompressionSnappy:
		if len(compressed) < 1 || compressed[0] != 0xEE {
			return nil, errors.New("not a stream of the stand-in codec")
		}
		if len(compressed)-1 != block.UncompressedSize {
			return nil, errors.New("row data length differs from metadata UncompressedSize")
		}
		return compressed[1:], nil
	}
	return nil, errors.New("unsupported compression type")
}
