package bloomsearch

import (
	"context"
	"log/slog"
	"time"
)

// ---------------------------------------------------------------------------------------------
// C06 — acknowledgements are truthful: nil means durable and committed, error means absent.
// The real handleFlush / abortFileWriter / WriteFileFooter / blockFilterRegionWriter run against
// stores whose every call fails or succeeds arbitrarily (all single, paired, ... failures at once).
// ---------------------------------------------------------------------------------------------

func vpPartitionBuffer(id string) *partitionBuffer {
	pb := &partitionBuffer{partitionID: id, rowCount: 1, entries: newBloomEntrySets(),
		compressionEncoders: &compressionEncoders{}, uncompressedSize: 6,
		minMaxIndexes: map[string]MinMaxIndex{}}
	pb.compressionEncoders.writer = &pb.buffer
	pb.buffer.Write([]byte{2, 0, 0, 0, '{', '}'})
	return pb
}

func vpFlushEngine(w *vpWorld) *BloomSearchEngine {
	b := &BloomSearchEngine{
		config:    BloomSearchEngineConfig{BloomFalsePositiveRate: 0.01, RowDataCompression: CompressionNone},
		metaStore: &vpMeta{w}, dataStore: &vpStore{w},
	}
	if !vpSymbolic() { // NewBloomSearchEngine never leaves the logger nil; the encoder treats slog calls as no-ops
		b.logger = slog.New(slog.DiscardHandler)
	}
	return b
}

func vpCheckFlushOutcome(w *vpWorld, answers []error, withAbort bool) {
	// all waiters get the same kind of answer
	for _, a := range answers[1:] {
		vpAssert((a == nil) == (answers[0] == nil), "C06: waiters of one flush got different verdicts")
	}
	committed := w.count(evUpdateOK, -1) == 1
	vpAssert(w.count(evUpdateOK, -1)+w.count(evUpdateFail, -1) <= 1, "C06: MetaStore.Update called more than once for one flush")
	if upd := w.first(evUpdateOK, -1); upd >= 0 || w.first(evUpdateFail, -1) >= 0 {
		cl := w.first(evCloseOK, 0)
		if upd < 0 {
			upd = w.first(evUpdateFail, -1)
		}
		vpAssert(cl >= 0 && cl < upd, "C06: MetaStore.Update called before the file's Close succeeded")
		vpAssert(len(w.updateWrites) == 1 && len(w.updateDeletes) == 0 && vpFileID(w.updateWrites[0].FilePointerBytes) == 0, "C06: Update does not reference exactly the flushed file")
	}
	if answers[0] == nil {
		vpAssert(committed, "C06: nil acknowledged although the file was never committed to the MetaStore")
		vpAssert(w.count(evTombstone, -1) == 0 && w.count(evAbort, -1) == 0, "C06: nil acknowledged for a file that was aborted or tombstoned")
		vpAssert(w.count(evWriteFail, -1) == 0 && w.count(evCloseFail, -1) == 0 && w.count(evCreateFail, -1) == 0, "C06: nil acknowledged although a store call failed")
	} else {
		vpAssert(!committed, "C06: error acknowledged although the file was committed (rows stay visible)")
		if w.count(evCreateOK, -1) > 0 {
			vpAssert(w.count(evTombstone, 0) >= 1, "C06: failed flush left its file pointer un-tombstoned")
			if withAbort {
				vpAssert(w.count(evAbort, 0) >= 1 || w.count(evCloseOK, 0) == 1, "C06: failed flush neither aborted nor fully published its writer")
			} else {
				vpAssert(w.count(evCloseOK, 0)+w.count(evCloseFail, 0) == 1, "C06: writer without Abort was not closed exactly once on the failure path")
			}
		}
	}
	if w.count(evCloseOK, 0)+w.count(evCloseFail, 0) > 1 {
		vpAssert(false, "C06: writer closed twice")
	}
}

//vp:override (*bs.bloomEntrySets).buildFilters=vpBuildFiltersStub
//vp:override bs.encodeFilterSection=vpEncodeSectionStub
//vp:bounds 1 or 2 partition buffers, 3 waiters (one nil), every CreateFile/Write/Close/Update/TombstoneFile call fails or succeeds arbitrarily; writers with and without Abort
func H_C06_flush_acks_are_truthful() {
	w := vpNewWorld()
	w.plainWriter = nondetBool()
	b := vpFlushEngine(w)
	bufs := map[string]*partitionBuffer{"p": vpPartitionBuffer("p")}
	if nondetBool() {
		bufs["q"] = vpPartitionBuffer("q")
	}
	d1, d2 := make(chan error, 1), make(chan error, 1)
	b.handleFlush(context.Background(), flushRequest{partitionBuffers: bufs, doneChans: []chan error{d1, nil, d2}})
	vpAssert(len(d1) == 1 && len(d2) == 1, "C05/C06: a waiter was not answered exactly once")
	vpCheckFlushOutcome(w, []error{<-d1, <-d2}, !w.plainWriter)
}

// An ack-only flush (no partition buffers) touches no store and acks nil.
func H_C06_ack_only_flush() {
	w := vpNewWorld()
	b := vpFlushEngine(w)
	d := make(chan error, 1)
	b.handleFlush(context.Background(), flushRequest{doneChans: []chan error{d}})
	vpAssert(len(w.events) == 0, "C06: ack-only flush touched a store")
	vpAssert(len(d) == 1 && <-d == nil, "C06: ack-only flush did not ack nil exactly once")
}

// vpBatchRow: a row that marshals, or one that does not (a chan value; the encoder's
// encoding/json.Marshal model fails on the key "bad", natively the chan does).
func vpBatchRow(bad bool, part string) map[string]any {
	if bad {
		return map[string]any{"bad": make(chan int), "p": part}
	}
	return map[string]any{"a": "x", "p": part}
}

// indexRow is never reached on a rejected batch; the stub only lets the encoder follow code
// changes that do ingest such a batch far enough to see the buffers change.
func vpIndexRowNop(s *bloomEntrySets, rowBytes []byte, tokenizer ValueTokenizerFunc) {}

func vpPartitionByP(row map[string]any) string {
	s, _ := row["p"].(string)
	return s
}

// A batch with an unmarshalable row is answered with an error exactly once and leaves no trace:
// buffers, waiters and counters of the ingest actor are exactly as before (so none of its rows can
// ever be flushed), wherever the bad row sits in the batch and whichever partitions it spans.
//
//vp:override (*bs.bloomEntrySets).indexRow=vpIndexRowNop
//vp:bounds batches of 1..3 rows, each unmarshalable or good (at least one unmarshalable), each in partition p (already buffered) or q (new); PartitionFunc nil or by field; one earlier batch buffered with its waiter
func H_C06_rejected_batch_leaves_no_trace() {
	b := &BloomSearchEngine{config: BloomSearchEngineConfig{BloomFalsePositiveRate: 0.01, RowDataCompression: CompressionNone,
		MaxRowGroupRows: 1000, MaxRowGroupBytes: 1 << 20, MaxBufferedRows: 1000, MaxBufferedBytes: 1 << 20, MaxBufferedTime: time.Hour}}
	if !vpSymbolic() {
		b.logger = slog.New(slog.DiscardHandler)
	}
	if nondetBool() {
		b.config.PartitionFunc = vpPartitionByP
	}
	pre := vpPartitionBuffer("p")
	bufs := map[string]*partitionBuffer{"p": pre}
	w0 := make(chan error, 1)
	waiters := []chan error{w0}
	rowCount, byteCount := 1, 6
	var started time.Time
	n := 1 + nondetChoice(3)
	nBad := 0
	rows := make([]map[string]any, 0, n)
	for i := 0; i < n; i++ {
		bad := nondetBool()
		part := "p"
		if nondetBool() {
			part = "q"
		}
		if bad {
			nBad++
		}
		rows = append(rows, vpBatchRow(bad, part))
	}
	vpAssume(nBad > 0)
	d := make(chan error, 1)
	b.processIngestRequest(context.Background(), &ingestRequest{rows: rows, doneChan: d}, bufs, &waiters, &rowCount, &byteCount, &started)
	vpAssert(len(d) == 1, "C05/C06: rejected batch was not answered exactly once")
	vpAssert(<-d != nil, "C06: nil acknowledged for a batch with an unmarshalable row")
	vpAssert(len(bufs) == 1 && bufs["p"] == pre, "C06: rejected batch changed the set of partition buffers")
	vpAssert(pre.rowCount == 1 && pre.uncompressedSize == 6 && pre.buffer.Len() == 6 && len(pre.minMaxIndexes) == 0, "C06: rejected batch left rows or indexes in a partition buffer")
	vpAssert(len(waiters) == 1 && waiters[0] == w0 && len(w0) == 0, "C06: rejected batch changed the waiters of the buffered batches")
	vpAssert(rowCount == 1 && byteCount == 6 && started == (time.Time{}), "C06: rejected batch changed the buffered row/byte counters or the buffer clock")
}
