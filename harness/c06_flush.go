package bloomsearch

import (
	"context"
)

// ---------------------------------------------------------------------------------------------
// C06 — acknowledgements are truthful: nil means durable and committed, error means absent.
// The real handleFlush / abortFileWriter / WriteFileFooter / blockFilterRegionWriter run against
// stores whose every call fails or succeeds arbitrarily (all single, paired, ... failures at once).
// ---------------------------------------------------------------------------------------------

func vpPartitionBuffer(id string) *partitionBuffer {
	pb := &partitionBuffer{partitionID: id, rowCount: 1, entries: newBloomEntrySets(),
		compressionEncoders: &compressionEncoders{}, uncompressedSize: 6,
		minMaxIndexes: map[string]MinMaxIndex{}}
	pb.compressionEncoders.writer = &pb.buffer
	pb.buffer.Write([]byte{2, 0, 0, 0, '{', '}'})
	return pb
}

func vpFlushEngine(w *vpWorld) *BloomSearchEngine {
	return &BloomSearchEngine{
		config:    BloomSearchEngineConfig{BloomFalsePositiveRate: 0.01, RowDataCompression: CompressionNone},
		metaStore: &vpMeta{w}, dataStore: &vpStore{w},
	}
}

func vpCheckFlushOutcome(w *vpWorld, answers []error, withAbort bool) {
	// all waiters get the same kind of answer
	for _, a := range answers[1:] {
		vpAssert((a == nil) == (answers[0] == nil), "C06: waiters of one flush got different verdicts")
	}
	committed := w.count(evUpdateOK, -1) == 1
	vpAssert(w.count(evUpdateOK, -1)+w.count(evUpdateFail, -1) <= 1, "C06: MetaStore.Update called more than once for one flush")
	if upd := w.first(evUpdateOK, -1); upd >= 0 || w.first(evUpdateFail, -1) >= 0 {
		cl := w.first(evCloseOK, 0)
		if upd < 0 {
			upd = w.first(evUpdateFail, -1)
		}
		vpAssert(cl >= 0 && cl < upd, "C06: MetaStore.Update called before the file's Close succeeded")
		vpAssert(len(w.updateWrites) == 1 && len(w.updateDeletes) == 0 && vpFileID(w.updateWrites[0].FilePointerBytes) == 0, "C06: Update does not reference exactly the flushed file")
	}
	if answers[0] == nil {
		vpAssert(committed, "C06: nil acknowledged although the file was never committed to the MetaStore")
		vpAssert(w.count(evTombstone, -1) == 0 && w.count(evAbort, -1) == 0, "C06: nil acknowledged for a file that was aborted or tombstoned")
		vpAssert(w.count(evWriteFail, -1) == 0 && w.count(evCloseFail, -1) == 0 && w.count(evCreateFail, -1) == 0, "C06: nil acknowledged although a store call failed")
	} else {
		vpAssert(!committed, "C06: error acknowledged although the file was committed (rows stay visible)")
		if w.count(evCreateOK, -1) > 0 {
			vpAssert(w.count(evTombstone, 0) >= 1, "C06: failed flush left its file pointer un-tombstoned")
			if withAbort {
				vpAssert(w.count(evAbort, 0) >= 1 || w.count(evCloseOK, 0) == 1, "C06: failed flush neither aborted nor fully published its writer")
			} else {
				vpAssert(w.count(evCloseOK, 0)+w.count(evCloseFail, 0) == 1, "C06: writer without Abort was not closed exactly once on the failure path")
			}
		}
	}
	if w.count(evCloseOK, 0)+w.count(evCloseFail, 0) > 1 {
		vpAssert(false, "C06: writer closed twice")
	}
}

//vp:override (*bs.bloomEntrySets).buildFilters=vpBuildFiltersStub
//vp:override bs.encodeFilterSection=vpEncodeSectionStub
//vp:bounds 1 or 2 partition buffers, 3 waiters (one nil), every CreateFile/Write/Close/Update/TombstoneFile call fails or succeeds arbitrarily; writers with and without Abort
func H_C06_flush_acks_are_truthful() {
	w := vpNewWorld()
	w.plainWriter = nondetBool()
	b := vpFlushEngine(w)
	bufs := map[string]*partitionBuffer{"p": vpPartitionBuffer("p")}
	if nondetBool() {
		bufs["q"] = vpPartitionBuffer("q")
	}
	d1, d2 := make(chan error, 1), make(chan error, 1)
	b.handleFlush(context.Background(), flushRequest{partitionBuffers: bufs, doneChans: []chan error{d1, nil, d2}})
	vpAssert(len(d1) == 1 && len(d2) == 1, "C05/C06: a waiter was not answered exactly once")
	vpCheckFlushOutcome(w, []error{<-d1, <-d2}, !w.plainWriter)
}

// An ack-only flush (no partition buffers) touches no store and acks nil.
func H_C06_ack_only_flush() {
	w := vpNewWorld()
	b := vpFlushEngine(w)
	d := make(chan error, 1)
	b.handleFlush(context.Background(), flushRequest{doneChans: []chan error{d}})
	vpAssert(len(w.events) == 0, "C06: ack-only flush touched a store")
	vpAssert(len(d) == 1 && <-d == nil, "C06: ack-only flush did not ack nil exactly once")
}
