package bloomsearch

import (
	"context"
	"errors"
	"io"
	"iter"
)

// ---------------------------------------------------------------------------------------------
// Fault-injecting DataStore / MetaStore stubs shared by the protocol harnesses (C05-C08, C13).
// Every call may fail (an arbitrary error) or succeed; every call is recorded in a ghost log.
// ---------------------------------------------------------------------------------------------

type vpEvKind int

const (
	evCreateOK vpEvKind = iota
	evCreateFail
	evWriteOK
	evWriteFail
	evCloseOK
	evCloseFail
	evAbort
	evUpdateOK
	evUpdateFail
	evTombstone
	evOpen
	evIter
	evAck
	evReadClose
	evOpenOK
	evOpenFail
)

type vpEvent struct {
	kind vpEvKind
	file int // file id (CreateFile order), -1 if n/a
}

type vpWorld struct {
	events   []vpEvent
	nCreated int
	// faults: when false, the corresponding call kind never fails (keeps quick runs small)
	failCreate, failWrite, failClose, failUpdate, failTombstone bool
	plainWriter                                                  bool // writers without an Abort method
	files                                                        []MaybeFile
	iterFails                                                    bool
	iterFailsAnywhere, iterFailed                                bool
	iterRunning                                                  int // MetaStore iterators entered and not yet returned
	updateWrites                                                 []WriteOperation
	updateDeletes                                                []DeleteOperation
	ctxSeen                                                      []context.Context
	openMaySucceed                                               bool
	openAlways                                                   bool // OpenFile never fails
	readCloseMayFail                                             bool // Close of a read handle may report an error
	wedge                                                        chan struct{} // when non-nil, CreateFile waits for it to be closed
	wedgeIgnoresCtx                                              bool          // ... without honouring its context
	createCalls                                                  int
	committedRows                                                int // rows of the files written by successful Update calls
}

var vpW *vpWorld

// vpIOSlot: when set, every store / reader call made by the code under test must happen while this
// worker slot is held (C22's discipline obligation).
var vpIOSlot *querySlot

func vpNewWorld() *vpWorld {
	vpW = &vpWorld{failCreate: true, failWrite: true, failClose: true, failUpdate: true, failTombstone: true}
	return vpW
}

func (w *vpWorld) log(k vpEvKind, file int) { w.events = append(w.events, vpEvent{k, file}) }

func (w *vpWorld) count(k vpEvKind, file int) int {
	n := 0
	for _, e := range w.events {
		if e.kind == k && (file < 0 || e.file == file) {
			n++
		}
	}
	return n
}

// first index of an event, or -1
func (w *vpWorld) first(k vpEvKind, file int) int {
	for i, e := range w.events {
		if e.kind == k && (file < 0 || e.file == file) {
			return i
		}
	}
	return -1
}

func (w *vpWorld) last(k vpEvKind, file int) int {
	r := -1
	for i, e := range w.events {
		if e.kind == k && (file < 0 || e.file == file) {
			r = i
		}
	}
	return r
}

func vpInjected() error { return errors.New("injected store failure") }

type vpStore struct{ w *vpWorld }

func vpPointer(id int) []byte { return []byte{'F', byte(id)} }
func vpFileID(p []byte) int {
	if len(p) == 2 && p[0] == 'F' {
		return int(p[1])
	}
	if len(p) == 2 && p[0] == 'S' { // a source file of a merge (not created through this stub)
		return vpSrcBase + int(p[1])
	}
	return -1
}

const vpSrcBase = 100

func vpSrcPointer(i int) []byte { return []byte{'S', byte(i)} }

func (s *vpStore) CreateFile(ctx context.Context) (io.WriteCloser, []byte, error) {
	s.w.ctxSeen = append(s.w.ctxSeen, ctx)
	s.w.createCalls++
	if s.w.wedge != nil {
		if s.w.wedgeIgnoresCtx {
			<-s.w.wedge
		} else {
			select {
			case <-s.w.wedge:
			case <-ctx.Done():
				s.w.log(evCreateFail, -1)
				return nil, nil, ctx.Err()
			}
		}
	}
	if s.w.failCreate && nondetBool() {
		s.w.log(evCreateFail, -1)
		return nil, nil, vpInjected()
	}
	id := s.w.nCreated
	s.w.nCreated++
	s.w.log(evCreateOK, id)
	if s.w.plainWriter {
		return &vpPlainWriter{w: s.w, id: id}, vpPointer(id), nil
	}
	return &vpWriter{vpPlainWriter{w: s.w, id: id}}, vpPointer(id), nil
}

func (s *vpStore) OpenFile(ctx context.Context, p []byte) (io.ReadSeekCloser, error) {
	s.w.log(evOpen, vpFileID(p))
	if vpIOSlot != nil {
		vpAssert(vpIOSlot.held, "C22: OpenFile called without holding a query slot")
	}
	if s.w.openAlways || (s.w.openMaySucceed && nondetBool()) {
		s.w.log(evOpenOK, vpFileID(p))
		return &vpReader{w: s.w, id: vpFileID(p)}, nil
	}
	s.w.log(evOpenFail, vpFileID(p))
	return nil, vpInjected()
}

// vpReader: an opened file whose content is never looked at (the readers above it are stubbed);
// Close is logged so that handle hygiene can be checked.
type vpReader struct {
	w      *vpWorld
	id     int
	closed int
}

func (f *vpReader) Read(p []byte) (int, error)                { return 0, io.EOF }
func (f *vpReader) Seek(off int64, whence int) (int64, error) { return 0, nil }
func (f *vpReader) Close() error {
	f.closed++
	f.w.log(evReadClose, f.id)
	if f.w.readCloseMayFail && nondetBool() {
		return vpInjected()
	}
	return nil
}

func (s *vpStore) TombstoneFile(ctx context.Context, p []byte) error {
	s.w.ctxSeen = append(s.w.ctxSeen, ctx)
	s.w.log(evTombstone, vpFileID(p))
	if s.w.failTombstone && nondetBool() {
		return vpInjected()
	}
	return nil
}

// vpPlainWriter has no Abort method; vpWriter adds one.
type vpPlainWriter struct {
	w      *vpWorld
	id     int
	pos    int
	closed bool
}

func (f *vpPlainWriter) Write(p []byte) (int, error) {
	if f.w.failWrite && nondetBool() {
		f.w.log(evWriteFail, f.id)
		return 0, vpInjected()
	}
	f.w.log(evWriteOK, f.id)
	f.pos += len(p)
	return len(p), nil
}

func (f *vpPlainWriter) Close() error {
	if f.w.failClose && nondetBool() {
		f.w.log(evCloseFail, f.id)
		return vpInjected()
	}
	f.w.log(evCloseOK, f.id)
	f.closed = true
	return nil
}

type vpWriter struct{ vpPlainWriter }

func (f *vpWriter) Abort() error {
	f.w.log(evAbort, f.id)
	return nil
}

type vpMeta struct{ w *vpWorld }

func (m *vpMeta) GetMaybeFilesForQuery(ctx context.Context, q *QueryPrefilter) iter.Seq2[MaybeFile, error] {
	return func(yield func(MaybeFile, error) bool) {
		m.w.log(evIter, -1)
		m.w.iterRunning++
		defer func() { m.w.iterRunning-- }()
		for i, f := range m.w.files {
			if m.w.iterFails && (m.w.iterFailsAnywhere || i == len(m.w.files)-1) && nondetBool() {
				m.w.iterFailed = true
				yield(MaybeFile{}, vpInjected())
				return
			}
			if !yield(f, nil) {
				return
			}
		}
	}
}

func (m *vpMeta) Update(ctx context.Context, writes []WriteOperation, deletes []DeleteOperation) error {
	m.w.ctxSeen = append(m.w.ctxSeen, ctx)
	m.w.updateWrites = append(m.w.updateWrites, writes...)
	m.w.updateDeletes = append(m.w.updateDeletes, deletes...)
	if m.w.failUpdate && nondetBool() {
		m.w.log(evUpdateFail, -1)
		return vpInjected()
	}
	m.w.log(evUpdateOK, -1)
	for _, wr := range writes {
		if wr.FileMetadata != nil {
			for i := range wr.FileMetadata.DataBlocks {
				m.w.committedRows += wr.FileMetadata.DataBlocks[i].Rows
			}
		}
	}
	return nil
}

// Stand-ins for the bloom construction/serialisation (library code): empty filters and a small
// section of arbitrary content.
func vpBuildFiltersStub(s *bloomEntrySets, rate float64) BloomFilters { return BloomFilters{} }
func vpEncodeSectionStub(f *BloomFilters) ([]byte, error) {
	return []byte{nondetU8(), 2, 3, 4, 5}, nil
}
