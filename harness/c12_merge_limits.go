package bloomsearch

import (
	"context"
	"io"
)

// ---------------------------------------------------------------------------------------------
// C12 — merge output respects the configured layout limits (and, for C11, the block grouping is
// a partition of the source blocks).
// ---------------------------------------------------------------------------------------------

var (
	vpCalls     [][]int // indices (into allBlocks) passed to each copy/merge call
	vpMixedKeys bool    // a merge call combined blocks of different partitions or key sets
	vpOverRows  bool    // a merge call exceeds MaxRowGroupRows
	vpOverBytes bool    // a merge call exceeds MaxRowGroupBytes
	vpTinyMerge bool    // merge called on fewer than two blocks
)

// Recorders standing in for copyDataBlock/mergeDataBlocks: each block carries its index in the
// (here unused) RowDataOffset field.
func vpCopyRec(b *BloomSearchEngine, ctx context.Context, w io.Writer, bwf blockWithFile, off *int, nb *[]DataBlockMetadata, fe *bloomEntrySets, fr *blockFilterRegionWriter) error {
	vpCalls = append(vpCalls, []int{bwf.block.RowDataOffset})
	return nil
}

func vpMergeRec(b *BloomSearchEngine, ctx context.Context, w io.Writer, all []blockWithFile, group []int, partitionID string, off *int, nb *[]DataBlockMetadata, fe *bloomEntrySets, fr *blockFilterRegionWriter) error {
	rows, size := 0, 0
	first := &all[group[0]].block
	for _, gi := range group {
		blk := &all[gi].block
		rows += blk.Rows
		size += blk.UncompressedSize
		if blk.PartitionID != partitionID || !vpSameKeySet(blk.MinMaxIndexes, first.MinMaxIndexes) {
			vpMixedKeys = true
		}
	}
	vpOverRows = vpOr(vpOverRows, rows > b.config.MaxRowGroupRows)
	vpOverBytes = vpOr(vpOverBytes, size > b.config.MaxRowGroupBytes)
	if len(group) < 2 {
		vpTinyMerge = true
	}
	vpCalls = append(vpCalls, append([]int(nil), group...))
	return nil
}

func vpSameKeySet(a, b map[string]MinMaxIndex) bool {
	if len(a) != len(b) {
		return false
	}
	for k := range a {
		if _, ok := b[k]; !ok {
			return false
		}
	}
	return true
}

// vpKeySet: one of four minmax key sets.
func vpKeySet() map[string]MinMaxIndex {
	switch nondetChoice(4) {
	case 1:
		return map[string]MinMaxIndex{"k": {}}
	case 2:
		return map[string]MinMaxIndex{"j": {}}
	case 3:
		return map[string]MinMaxIndex{"k": {}, "j": {}}
	}
	return nil
}

// Metadata counts and sizes are validated file extents: non-negative and far below 2^40. Without
// this the additions in the limit checks can wrap (noted in DESIGN section 8 as an observation).
func vpExtent() int {
	v := nondetInt()
	vpAssume(v >= 0 && v < 1<<40)
	return v
}

func vpLimit() int {
	v := nondetInt()
	vpAssume(v > 0 && v < 1<<40)
	return v
}

//vp:override (*bs.BloomSearchEngine).copyDataBlock=vpCopyRec
//vp:override (*bs.BloomSearchEngine).mergeDataBlocks=vpMergeRec
//vp:bounds 3 blocks (4 in thorough) of one partition, symbolic rows/sizes in [0,2^40), symbolic limits in (0,2^40), 4 key sets per block
func H_C12_block_grouping_respects_limits() {
	n := vpBound(3, 4)
	vpCalls, vpMixedKeys, vpOverRows, vpOverBytes, vpTinyMerge = nil, false, false, false, false
	b := &BloomSearchEngine{config: BloomSearchEngineConfig{MaxRowGroupRows: vpLimit(), MaxRowGroupBytes: vpLimit()}}
	all := make([]blockWithFile, n)
	idx := make([]int, n)
	for i := 0; i < n; i++ {
		all[i] = blockWithFile{block: DataBlockMetadata{PartitionID: "p", RowDataOffset: i, Rows: vpExtent(), UncompressedSize: vpExtent(), MinMaxIndexes: vpKeySet()}}
		idx[i] = i
	}
	off := 0
	var nb []DataBlockMetadata
	err := b.processPartitionBlocks(context.Background(), nil, all, idx, "p", &off, &nb, nil, nil)
	vpAssert(err == nil, "C12: grouping failed although copy/merge succeeded")
	vpAssert(!vpMixedKeys, "C12: blocks of different partitions or minmax key sets were combined")
	vpAssert(!vpOverRows, "C12: a combined block exceeds MaxRowGroupRows")
	vpAssert(!vpOverBytes, "C12: a combined block exceeds MaxRowGroupBytes")
	vpAssert(!vpTinyMerge, "C12: merge called on fewer than two blocks")
	// C11: the calls partition the source blocks (nothing dropped, nothing duplicated)
	seen := make([]int, n)
	for _, c := range vpCalls {
		for _, i := range c {
			seen[i]++
		}
	}
	for i := 0; i < n; i++ {
		vpAssert(seen[i] == 1, "C11: a source block was dropped or written twice by the merge grouping")
	}
}

// blockMergeKey is injective over (partition ID, key set).
//vp:bounds partition IDs of 0..2 arbitrary bytes; key sets: 4 fixed sets over {"k","j"}, one symbolic key of 0..2 bytes, two symbolic 1-byte keys
func H_C12_merge_key_injective() {
	a := &DataBlockMetadata{PartitionID: nondetString(2), MinMaxIndexes: vpKeySet()}
	b := &DataBlockMetadata{PartitionID: nondetString(2), MinMaxIndexes: vpKeySet()}
	switch nondetChoice(3) {
	case 1: // one key of 0..2 arbitrary bytes
		a.MinMaxIndexes = map[string]MinMaxIndex{nondetString(2): {}}
	case 2: // two 1-byte keys (distinct or equal: equal collapses to one entry)
		a.MinMaxIndexes = map[string]MinMaxIndex{string([]byte{nondetU8()}): {}, string([]byte{nondetU8()}): {}}
	}
	if blockMergeKey(a) == blockMergeKey(b) {
		vpAssert(a.PartitionID == b.PartitionID, "C12: blocks of different partitions share a merge key")
		vpAssert(vpSameKeySet(a.MinMaxIndexes, b.MinMaxIndexes), "C12: blocks with different minmax key sets share a merge key")
	}
}

func vpNoSort(x any, less func(i, j int) bool) {}

// File-level grouping. The candidates are exchangeable (every field symbolic), so leaving
// sort.Slice out (override: identity) explores every order the real sort could produce and more.
//vp:override sort.Slice=vpNoSort
//vp:bounds 3 files with 1 block each, symbolic rows/sizes, 2 partitions x 2 key sets, all limits symbolic (both tiers: a fourth symbolic file did not finish)
func H_C12_file_grouping_respects_limits() {
	// 3 files in both tiers: with a fourth symbolic file (even one with concrete extents) the sum /
	// limit queries went to the 180 s fallback solver one after the other and the run did not finish
	// in 40 minutes; four files with concrete sizes are H_C12_file_budget_covers_the_whole_merge_call
	n := 3
	b := &BloomSearchEngine{config: BloomSearchEngineConfig{
		MaxRowGroupRows: vpLimit(), MaxRowGroupBytes: vpLimit(), MaxFileSize: vpLimit(), MaxFilesToMergePerOperation: nondetInt()}}
	vpAssume(b.config.MaxFilesToMergePerOperation >= 2 && b.config.MaxFilesToMergePerOperation < 100)
	files := make([]fileMergeCandidate, n)
	for i := 0; i < n; i++ {
		blk := DataBlockMetadata{Rows: vpExtent(), UncompressedSize: vpExtent(), RowDataSize: vpExtent(), BloomFilterSize: vpExtent(), PartitionID: "p"}
		if nondetBool() {
			blk.PartitionID = "q"
		}
		if nondetBool() {
			blk.MinMaxIndexes = map[string]MinMaxIndex{"k": {}}
		}
		md := FileMetadata{DataBlocks: []DataBlockMetadata{blk}}
		files[i] = fileMergeCandidate{filePointer: []byte{byte(i)}, metadata: md, statistics: b.calculateFileStatistics(md)}
		vpAssert(files[i].statistics.totalSize == blk.RowDataSize+blk.BloomFilterSize && files[i].statistics.totalRows == blk.Rows && files[i].statistics.blockCount == 1, "C12: file statistics do not describe the file")
	}
	groups := b.identifyFileMergeGroups(files)
	used := make([]int, n)
	total := 0
	for _, g := range groups {
		vpAssert(len(g) >= 2, "C12: a merge group with fewer than two files")
		size := 0
		for _, c := range g {
			used[int(c.filePointer[0])]++
			size += c.statistics.totalSize
			total++
		}
		vpAssert(size <= b.config.MaxFileSize, "C12: files merged into one output exceed MaxFileSize")
	}
	vpAssert(total <= b.config.MaxFilesToMergePerOperation, "C12: one Merge call removes more than MaxFilesToMergePerOperation files")
	for i := 0; i < n; i++ {
		vpAssert(used[i] <= 1, "C12: a file appears in two merge groups")
	}
}

// The per-operation file budget is a budget of the whole Merge call: with 4 one-block files
// falling into up to two independent groups (partitions p/q) the groups together never hold more
// than MaxFilesToMergePerOperation files.
//
//vp:bounds 4 one-block files with concrete small sizes, each in partition p or q, MaxFilesToMergePerOperation symbolic in 2..5, other limits far away
func H_C12_file_budget_covers_the_whole_merge_call() {
	b := &BloomSearchEngine{config: BloomSearchEngineConfig{MaxRowGroupRows: 1000, MaxRowGroupBytes: 1 << 20, MaxFileSize: 1 << 30, MaxFilesToMergePerOperation: nondetInt()}}
	vpAssume(b.config.MaxFilesToMergePerOperation >= 2 && b.config.MaxFilesToMergePerOperation <= 5)
	files := make([]fileMergeCandidate, 4)
	for i := range files {
		blk := DataBlockMetadata{Rows: 1, UncompressedSize: 10, RowDataSize: 10 + i, BloomFilterSize: 5, PartitionID: "p"}
		if nondetBool() {
			blk.PartitionID = "q"
		}
		md := FileMetadata{DataBlocks: []DataBlockMetadata{blk}}
		files[i] = fileMergeCandidate{filePointer: []byte{byte(i)}, metadata: md, statistics: b.calculateFileStatistics(md)}
	}
	groups := b.identifyFileMergeGroups(files)
	total := 0
	used := make([]int, 4)
	for _, g := range groups {
		vpAssert(len(g) >= 2, "C12: a merge group with fewer than two files")
		for _, c := range g {
			used[int(c.filePointer[0])]++
			total++
		}
	}
	vpAssert(total <= b.config.MaxFilesToMergePerOperation, "C12: one Merge call removes more than MaxFilesToMergePerOperation files")
	for i := range used {
		vpAssert(used[i] <= 1, "C12: a file appears in two merge groups")
	}
}
