package bloomsearch

import "github.com/tidwall/gjson"

// ---------------------------------------------------------------------------------------------
// C02 — exact at row level, block-granular for prefilters. Row level: the three matcher harnesses
// of c01_matcher.go assert both directions (match <=> documented semantics) and are registered
// under C02 as well; the scratch-reuse harness is there too; the block scan delivers exactly the
// rows the matcher accepted (C23's harness). This file adds the strict prefilter semantics.
// ---------------------------------------------------------------------------------------------

//vp:bounds as H_C01_field_condition_matches_exactly_what_the_semantics_say
//vp:maxpaths 400000
func H_C02_field_condition_is_exact() { H_C01_field_condition_matches_exactly_what_the_semantics_say() }

//vp:bounds as H_C01_token_conditions_match_exactly_what_the_semantics_say
//vp:maxpaths 400000
func H_C02_token_conditions_are_exact() { H_C01_token_conditions_match_exactly_what_the_semantics_say() }

//vp:bounds as H_C01_regex_condition_matches_exactly_what_the_semantics_say
//vp:maxpaths 400000
func H_C02_regex_and_fieldtoken_paths_are_exact() {
	H_C01_regex_condition_matches_exactly_what_the_semantics_say()
}

//vp:override bs.readPooledBlockRowData=vpReadRowDataStub
//vp:override (*bs.compiledRowMatcher).matchRowBytes=vpMatchStub
//vp:override bs.materializeRow=vpMaterializeStub
//vp:bounds as H_C23_block_scan_records_exactly_one_entry: the rows handed to the cursor are rows the matcher accepted, all of them on a clean scan
func H_C02_block_scan_delivers_exactly_the_accepted_rows() {
	H_C23_block_scan_records_exactly_one_entry()
}

// Strict, block-granular prefilters: FilterDataBlocks keeps exactly the blocks the prefilter
// accepts, in order and without touching its input; a block without a partition ID fails every
// partition condition and a block without the minmax key fails every minmax condition, whatever
// the operator and operands; a nil prefilter or nil condition keeps everything.
//
//vp:bounds 2 blocks: partition ID empty or 1 symbolic byte, minmax index for key k present (arbitrary range) or absent; prefilter nil / a partition condition (11 operators, operands 0..1 bytes) / a minmax condition on k or on another key (11 operators, arbitrary operands) / a nil-condition leaf
//vp:maxpaths 400000
func H_C02_prefilters_are_strict_and_block_granular() {
	blocks := make([]DataBlockMetadata, 2)
	for i := range blocks {
		b := DataBlockMetadata{RowDataOffset: i, PartitionID: nondetString(1)}
		if nondetBool() {
			lo, hi := nondetInt64(), nondetInt64()
			vpAssume(lo <= hi)
			b.MinMaxIndexes = map[string]MinMaxIndex{"k": {Min: lo, Max: hi}}
		}
		blocks[i] = b
	}
	var q *QueryPrefilter
	kind := nondetChoice(5)
	var sc StringCondition
	var nc NumericCondition
	key := "k"
	switch kind {
	case 1:
		sc = vpStringCondition(1)
		e := Partition(sc)
		q = &QueryPrefilter{Expression: &e}
	case 2:
		nc = vpNumericCondition()
		e := MinMax("k", nc)
		q = &QueryPrefilter{Expression: &e}
	case 3:
		nc = vpNumericCondition()
		key = "j"
		e := MinMax("j", nc)
		q = &QueryPrefilter{Expression: &e}
	case 4:
		q = &QueryPrefilter{Expression: &PrefilterExpression{ExpressionType: PrefilterExpressionCondition}}
	}
	before0, before1 := blocks[0].PartitionID, blocks[1].PartitionID
	out := FilterDataBlocks(blocks, q)
	vpAssert(len(blocks) == 2 && blocks[0].RowDataOffset == 0 && blocks[1].RowDataOffset == 1 && blocks[0].PartitionID == before0 && blocks[1].PartitionID == before1, "C02/C14: FilterDataBlocks changed the metadata it was given")
	want := 0
	for i := range blocks {
		keep := true
		switch kind {
		case 1:
			keep = blocks[i].PartitionID != "" && EvaluateStringCondition(blocks[i].PartitionID, sc)
			if blocks[i].PartitionID == "" {
				vpAssert(!EvaluateDataBlockMetadata(&blocks[i], q), "C02: a block without a partition ID passed a partition condition")
			}
		case 2, 3:
			idx, has := blocks[i].MinMaxIndexes[key]
			keep = has && EvaluateMinMaxCondition(idx, nc)
			if !has {
				vpAssert(!EvaluateDataBlockMetadata(&blocks[i], q), "C02: a block without the minmax key passed a minmax condition")
			}
		}
		if keep {
			vpAssert(want < len(out) && out[want].RowDataOffset == i, "C02: FilterDataBlocks dropped or reordered a block its prefilter accepts")
			want++
		}
	}
	vpAssert(len(out) == want, "C02: FilterDataBlocks kept a block its prefilter rejects")
}

// Queries whose verdict does not depend on the row at all — no conditions (everything), an empty
// AND (everything), an empty OR (nothing), a regex on the empty field path (nothing) — and two
// ordinary ones, through the REAL Query pipeline with the real compile step, the real block scan
// and the real matcher: a block that reaches the scan (here: files whose filters cannot rule
// anything out) delivers every stored row or none, never rows the query does not accept.
//
//vp:override (*bs.BloomSearchEngine).evaluateBloomFilters=vpQueryVerdictStub
//vp:override (*bs.blockFilterCursor).filtersFor=vpQueryFiltersFor
//vp:override (*bs.blockFilterCursor).release=vpCursorReleaseNop
//vp:override bs.readPooledBlockRowData=vpReadRowDataOK
//vp:override bs.materializeRow=vpMaterializeOK
//vp:override (*bs.compiledRowMatcher).matchRowBytes=vpMatchRowAX
//vp:maxsteps 400000
//vp:bounds the real Query with all its goroutines, MaxQueryConcurrency 1..2, 1 file of 1..2 blocks holding the row {"a":"x"} each (matchRowBytes is entered through a stand-in that repeats its constant-verdict gate and hands the real match the row as an abstract JSON value — the executor's gjson model parses abstract documents only), every file/block filter verdict "cannot rule out"; query drawn from: no conditions, And(), Or(), FieldRegex("", x), Field(a), Field(zz), Token(x) combined with FieldRegex("", x)
func H_C02_rows_are_verified_even_when_the_query_has_no_row_conditions() {
	w := vpNewWorld()
	w.openAlways = true
	nBlocks := 1 + nondetChoice(2)
	vpQuerySetupFixed(w, 1, nBlocks)
	b := vpQueryEngine(w, 1+nondetChoice(2))
	vpScanData = []byte{9, 0, 0, 0, '{', '"', 'a', '"', ':', '"', 'x', '"', '}'}
	var q *Query
	want := 0
	switch nondetChoice(7) {
	case 0:
		q, want = NewQuery().Build(), nBlocks
	case 1:
		q, want = NewQuery().Match(And()).Build(), nBlocks
	case 2:
		q = NewQuery().Match(Or()).Build()
	case 3:
		q = NewQuery().MatchRegex(FieldRegex("", "x")).Build()
	case 4:
		q, want = NewQuery().Field("a").Build(), nBlocks
	case 5:
		q = NewQuery().Field("zz").Build()
	default:
		q = NewQuery().Token("x").MatchRegex(FieldRegex("", "x")).Build()
	}
	r, err := b.Query(vpNewCtx(nil), q)
	vpAssert(err == nil && r != nil, "C20: Query failed on a valid query")
	got := 0
	for r.Next() {
		got++
		vpAssert(got <= nBlocks, "C02: more rows returned than stored")
	}
	vpAssert(r.Err() == nil, "C20: a fault-free query reported an error")
	vpAssert(got >= want, "C01: a stored row that satisfies the query was not returned")
	vpAssert(got <= want, "C02: a row that does not satisfy the query was returned (row verification skipped)")
}

func vpMatchRowAX(m *compiledRowMatcher, rowBytes []byte, scratch *rowMatchScratch) bool {
	if m.matchesAll {
		return true
	}
	if m.neverMatches {
		return false
	}
	return m.match(vpToGJSON(&vpNode{Kind: 1, Kids: []*vpNode{{Key: "a", Type: gjson.String, Text: "x"}}}), scratch)
}

