package bloomsearch

// Harness API. Under the symbolic executor (gosmt) every function in this file is intercepted by
// name and its body is never run; the bodies below are the *native* implementations used when a
// solver counterexample is replayed with `go test` against the real build.

import (
	"encoding/json"
	"fmt"
	"math"
	"os"
	"regexp"
	"runtime"
	"strconv"
	"strings"
	"sync"
	"syscall"
	"time"

	"github.com/bits-and-blooms/bloom/v3"
)

type vpReplayVal struct {
	K string `json:"k"`
	V string `json:"v"`
	B []int  `json:"b"`
}

type vpReplayDoc struct {
	Harness  string        `json:"harness"`
	Kind     string        `json:"kind"`
	Message  string        `json:"message"`
	Vector   []vpReplayVal `json:"vector"`
	Thorough bool          `json:"thorough"`
	Enable   []string      `json:"enable"`
	Attempts int           `json:"native_attempts"`
}

var (
	vpVec    []vpReplayVal
	vpVecPos int

	// vpTierThorough: the tier of the symbolic run being replayed (vpBound / vpThorough follow it).
	vpTierThorough = true
	// vpNativeOverride: /repo functions currently redirected to their harness stub. The wrappers
	// consulting it exist only in the native overlay build (engine/nativeov.go).
	vpNativeOverride = map[string]bool{}
	// vpAssertLog: messages of the assertions evaluated by the current native run.
	vpAssertLog []string

	// Native runs of harnesses that start goroutines: the harness API is called from several
	// goroutines (stubs drawing inputs, assertions inside goroutines). vpMu guards the vector and
	// the log; a failed assertion / assumption or an exhausted vector on a goroutine other than the
	// harness's own must not panic there (nobody would recover it and the whole test process, with
	// every other witness in it, would die): it is recorded and reported when the harness returns.
	vpMu           sync.Mutex
	vpHarnessGID   string
	vpAsyncFailure string // first "violated: ..." recorded off the harness goroutine
	vpAsyncAssume  bool
	vpExhausted    bool
)

// vpGoID: the running goroutine's id as printed in stack traces (used on failure paths only).
func vpGoID() string {
	var buf [64]byte
	n := runtime.Stack(buf[:], false)
	f := strings.Fields(string(buf[:n]))
	if len(f) >= 2 {
		return f[1]
	}
	return ""
}

func vpSetup(vec []vpReplayVal, thorough bool, enable []string) {
	vpMu.Lock()
	vpVec, vpVecPos, vpTierThorough, vpAssertLog = vec, 0, thorough, nil
	vpHarnessGID, vpAsyncFailure, vpAsyncAssume, vpExhausted = vpGoID(), "", false, false
	vpMu.Unlock()
	vpGoroutineBase = runtime.NumGoroutine()
	vpNativeOverride = map[string]bool{}
	for _, k := range enable {
		vpNativeOverride[k] = true
	}
}

type vpWitness struct {
	Harness  string        `json:"harness"`
	Vector   []vpReplayVal `json:"vector"`
	Thorough bool          `json:"thorough"`
	Enable   []string      `json:"enable"`
}

// vpRunWitnesses executes every witness (a complete symbolic path turned into concrete inputs by
// the solver) against the native build and reports, per witness, the verdict, the sequence of
// assertions evaluated and the number of nondets consumed; the engine compares these with what
// the symbolic path did.
func vpRunWitnesses(file string, table map[string]func()) []string {
	b, err := os.ReadFile(file)
	if err != nil {
		return []string{`{"index":-1,"result":"error: cannot read witness file"}`}
	}
	var ws []vpWitness
	if err := json.Unmarshal(b, &ws); err != nil {
		return []string{`{"index":-1,"result":"error: bad witness file"}`}
	}
	var out []string
	for i, w := range ws {
		res := "error: unknown harness"
		if h := table[w.Harness]; h != nil {
			res = vpRunOne(w.Vector, w.Thorough, w.Enable, "ASSERT", h)
		}
		if vpAssertLog == nil {
			vpAssertLog = []string{}
		}
		j, _ := json.Marshal(map[string]interface{}{"index": i, "result": res, "asserts": vpAssertLog, "consumed": vpVecPos})
		out = append(out, string(j))
	}
	return out
}

type vpAssertFailed struct{ msg string }
type vpAssumeFailed struct{}
type vpVectorExhausted struct{}

func vpNextRaw() vpReplayVal {
	vpMu.Lock()
	if vpVecPos >= len(vpVec) {
		// the native run took a path that draws more inputs than the symbolic one: carry on with
		// zeros (it is just another execution) and report the run as vector-exhausted at the end
		vpExhausted = true
		vpVecPos++
		onHarness := vpGoID() == vpHarnessGID
		vpMu.Unlock()
		if onHarness {
			panic(vpVectorExhausted{})
		}
		return vpReplayVal{V: "0"}
	}
	v := vpVec[vpVecPos]
	vpVecPos++
	vpMu.Unlock()
	return v
}

func vpNextU64() uint64 {
	v := vpNextRaw()
	u, err := strconv.ParseUint(v.V, 10, 64)
	if err != nil {
		panic(fmt.Sprintf("bad replay value %q", v.V))
	}
	return u
}

// vpRunReplay loads a replay file and runs the harness natively.
func vpRunReplay(file string, h func()) (res string) {
	b, err := os.ReadFile(file)
	if err != nil {
		return "error: " + err.Error()
	}
	var doc vpReplayDoc
	if err := json.Unmarshal(b, &doc); err != nil {
		return "error: " + err.Error()
	}
	// A path through a select with several ready cases is not determined by the vector (Go picks
	// at random): repeat until the run takes the failing branch. One reproduction is a real failure.
	res = vpRunOne(doc.Vector, doc.Thorough, doc.Enable, doc.Kind, h)
	for i := 1; i < doc.Attempts && !strings.HasPrefix(res, "violated"); i++ {
		res = vpRunOne(doc.Vector, doc.Thorough, doc.Enable, doc.Kind, h)
	}
	return res
}

// vpCaptureOutput runs f with file descriptors 1 and 2 redirected to a scratch file and returns
// what was written (the package-level loggers hold the original *os.File values, so the
// redirection has to happen at descriptor level).
func vpCaptureOutput(f func()) string {
	tmp, err := os.CreateTemp("", "vpout")
	if err != nil {
		f()
		return ""
	}
	defer os.Remove(tmp.Name())
	save1, _ := syscall.Dup(1)
	save2, _ := syscall.Dup(2)
	syscall.Dup2(int(tmp.Fd()), 1)
	syscall.Dup2(int(tmp.Fd()), 2)
	func() {
		defer func() {
			syscall.Dup2(save1, 1)
			syscall.Dup2(save2, 2)
			syscall.Close(save1)
			syscall.Close(save2)
		}()
		f()
	}()
	tmp.Close()
	b, _ := os.ReadFile(tmp.Name())
	return string(b)
}

func vpRunOne(vec []vpReplayVal, thorough bool, enable []string, kind string, h func()) (res string) {
	if kind == "FORBIDDEN" {
		// the counterexample is a path that writes to stdout/stderr: reproduce it by looking
		inner := "passed"
		out := vpCaptureOutput(func() { inner = vpRunOne(vec, thorough, enable, "ASSERT", h) })
		if len(out) > 0 {
			if len(out) > 120 {
				out = out[:120]
			}
			return "violated: the engine wrote to stdout/stderr: " + strconv.Quote(out)
		}
		return inner
	}
	vpSetup(vec, thorough, enable)
	defer func() {
		if r := recover(); r != nil {
			switch x := r.(type) {
			case vpAssertFailed:
				res = "violated: " + x.msg
			case vpAssumeFailed:
				res = "assumption-failed (vector does not reach the assertion natively)"
			case vpVectorExhausted:
				res = "vector-exhausted (native run consumed more nondets than the symbolic path)"
			default:
				if kind == "PANIC" {
					res = fmt.Sprintf("violated: run-time panic: %v", r)
				} else {
					res = fmt.Sprintf("panic (unexpected for %s): %v", kind, r)
				}
			}
		}
	}()
	h()
	vpMu.Lock()
	defer vpMu.Unlock()
	switch {
	case vpAsyncFailure != "":
		return "violated: " + vpAsyncFailure
	case vpExhausted:
		return "vector-exhausted (native run consumed more nondets than the symbolic path)"
	case vpAsyncAssume:
		return "assumption-failed (vector does not reach the assertion natively)"
	}
	return "passed"
}

func nondetInt64() int64     { return int64(vpNextU64()) }
func nondetInt() int         { return int(int64(vpNextU64())) }
func nondetUint64() uint64   { return vpNextU64() }
func nondetInt32() int32     { return int32(uint32(vpNextU64())) }
func nondetUint32() uint32   { return uint32(vpNextU64()) }
func nondetInt16() int16     { return int16(uint16(vpNextU64())) }
func nondetUint16() uint16   { return uint16(vpNextU64()) }
func nondetInt8() int8       { return int8(uint8(vpNextU64())) }
func nondetUint8() uint8     { return uint8(vpNextU64()) }
func nondetU8() byte         { return byte(vpNextU64()) }
func nondetBool() bool       { return vpNextU64() != 0 }
func nondetFloat64() float64 { return math.Float64frombits(vpNextU64()) }
func nondetFloat32() float32 { return math.Float32frombits(uint32(vpNextU64())) }

// nondetChoice returns a value in [0,n).
func nondetChoice(n int) int { return int(vpNextU64()) }

// nondetSymBytes returns a byte slice of arbitrary length and content (SMT array).
func nondetSymBytes() []byte {
	v := vpNextRaw()
	n, _ := strconv.ParseUint(v.V, 10, 64)
	if n > 1<<20 {
		n = 1 << 20
	}
	out := make([]byte, n)
	for i := range out {
		if i < len(v.B) {
			out[i] = byte(v.B[i])
		}
	}
	return out
}

// nondetString returns a string of length 0..max with arbitrary bytes.
func nondetString(max int) string {
	n := int(vpNextU64())
	b := make([]byte, n)
	for i := range b {
		b[i] = byte(vpNextU64())
	}
	return string(b)
}

// nondetBytes returns a byte slice of length 0..max with arbitrary bytes.
func nondetBytes(max int) []byte { return []byte(nondetString(max)) }

func vpAssume(c bool) {
	if !c {
		if vpGoID() != vpHarnessGID {
			vpMu.Lock()
			vpAsyncAssume = true
			vpMu.Unlock()
			return // carried on regardless; the run is reported as assumption-failed
		}
		panic(vpAssumeFailed{})
	}
}

func vpAssert(c bool, msg string) {
	vpMu.Lock()
	vpAssertLog = append(vpAssertLog, msg)
	vpMu.Unlock()
	if !c {
		if vpGoID() != vpHarnessGID {
			vpMu.Lock()
			if vpAsyncFailure == "" {
				vpAsyncFailure = msg
			}
			vpMu.Unlock()
			return // the harness goroutine reports it when the harness returns
		}
		panic(vpAssertFailed{msg})
	}
}

// vpBound selects a bound by tier; natively the tier is the one of the run being replayed.
func vpBound(quick, thorough int) int {
	if vpTierThorough {
		return thorough
	}
	return quick
}
func vpThorough() bool { return vpTierThorough }

// vpSymbolic is true under the symbolic executor and false natively.
func vpSymbolic() bool { return false }

func vpMustBlock()    {}
func vpMustBlockEnd() {}
func vpBlockedOK()    {}
func vpYield()        {}

// vpQuiesce blocks until every other goroutine of the harness is blocked or finished (exact under
// the executor; natively approximated by a pause).
func vpQuiesce() { time.Sleep(30 * time.Millisecond) }

// vpRefreshView: under the executor strings are value snapshots; for a string made by unsafeString
// this returns the text its backing buffer holds now, which is what the native string reads anyway.
func vpRefreshView(s string) string { return s }

// vpBloomMeetsEstimate: the filter has at least the bits and exactly the hash count that
// bloom.EstimateParameters(n, p) prescribes. vpBloomAdded: key was added to f (natively: tests
// positive). vpBloomAddCount: number of AddString calls (executor only; natively -1).
func vpBloomMeetsEstimate(f *bloom.BloomFilter, n uint, p float64) bool {
	if f == nil {
		return false
	}
	m, k := bloom.EstimateParameters(n, p)
	return f.Cap() >= m && f.K() == k
}
func vpBloomAdded(f *bloom.BloomFilter, key string) bool { return f != nil && f.TestString(key) }
func vpBloomAddCount(f *bloom.BloomFilter) int            { return -1 }

// vpRegexMatches: does pattern match text (under the executor: the uninterpreted predicate that
// also models (*regexp.Regexp).MatchString).
func vpRegexMatches(pattern, text string) bool {
	re, err := regexp.Compile(pattern)
	return err == nil && re.MatchString(text)
}

// vpForbidden: the code under test wrote to stdout/stderr through what (executor: a FORBIDDEN
// event; natively the write happens and is captured by the replay driver).
func vpForbidden(what string) {}

// vpUnmodelled: called by a harness-Go library model on an input it does not cover; the executor
// abandons the path as inconclusive (exit 2) instead of guessing. Never reached natively (the real
// library runs there).
func vpUnmodelled(what string) {}

// vpSetClock pins the executor's clock model: 0 arbitrary elapsed times (default), 1 time.Since
// reports a very long time, 2 time.Since reports zero. No effect natively.
func vpSetClock(mode int) {}

// vpLiveGoroutines: goroutines started during the harness that have not finished. Exact under the
// executor; natively the process's goroutine count is compared with the count at harness start,
// after giving finished goroutines up to half a second to be reaped.
func vpLiveGoroutines() int {
	n := 0
	for i := 0; i < 50; i++ {
		n = runtime.NumGoroutine() - vpGoroutineBase
		if n <= 0 {
			return 0
		}
		time.Sleep(10 * time.Millisecond)
	}
	return n
}

var vpGoroutineBase int

// vpMaxAllocSize: the largest allocation made from a symbolic (file-borne) size on this path.
// Natively unknown: 0.
func vpMaxAllocSize() int { return 0 }

// Strict (non-short-circuit) boolean connectives: under the executor they build one term instead
// of forking the path.
func vpOr(a, b bool) bool      { return a || b }
func vpAnd(a, b bool) bool     { return a && b }
func vpImplies(a, b bool) bool { return !a || b }
