package bloomsearch

import (
	"unicode"
	"unicode/utf8"
)

// ---------------------------------------------------------------------------------------------
// C01 / C02 — the zero-allocation tokenizer path on NON-ASCII text. forEachWord and
// appendFoldedWord must reproduce strings.Fields(strings.ToLower(text)) (the documented default
// tokenizer) also where word boundaries and case are multi-byte: every Unicode White_Space rune
// separates words whatever its UTF-8 lead byte (0xC2, 0xE1, 0xE2, 0xE3), look-alikes that are not
// spaces (U+200B, 'Â' whose lead byte is next to NBSP's) do not, and upper-case letters outside
// ASCII are folded.
//
// The text is a concatenation of chunks from a fixed alphabet whose class (space / letter and its
// lower-case form) is known by construction, so the expected token list needs no library call.
// utf8.DecodeRuneInString, utf8.AppendRune, unicode.IsSpace and unicode.ToLower are harness-Go
// models below (the library versions depend on tables set up by package initialisation, which the
// executor does not run): the decoder/encoder are the standard algorithms, IsSpace is the complete
// White_Space set, ToLower covers the scripts of the alphabet and refuses anything else. Natively
// the real library runs, and the witness runs compare the two.
// ---------------------------------------------------------------------------------------------

func vpModel_unicode_utf8_DecodeRuneInString(s string) (rune, int) {
	n := len(s)
	if n < 1 {
		return utf8.RuneError, 0
	}
	c0 := s[0]
	if c0 < 0x80 {
		return rune(c0), 1
	}
	if c0 < 0xC2 || c0 > 0xF4 {
		return utf8.RuneError, 1
	}
	cont := func(b byte) bool { return b >= 0x80 && b <= 0xBF }
	if c0 < 0xE0 {
		if n < 2 || !cont(s[1]) {
			return utf8.RuneError, 1
		}
		return rune(c0&0x1F)<<6 | rune(s[1]&0x3F), 2
	}
	if c0 < 0xF0 {
		lo, hi := byte(0x80), byte(0xBF)
		if c0 == 0xE0 {
			lo = 0xA0
		}
		if c0 == 0xED {
			hi = 0x9F
		}
		if n < 3 || s[1] < lo || s[1] > hi || !cont(s[2]) {
			return utf8.RuneError, 1
		}
		return rune(c0&0x0F)<<12 | rune(s[1]&0x3F)<<6 | rune(s[2]&0x3F), 3
	}
	lo, hi := byte(0x80), byte(0xBF)
	if c0 == 0xF0 {
		lo = 0x90
	}
	if c0 == 0xF4 {
		hi = 0x8F
	}
	if n < 4 || s[1] < lo || s[1] > hi || !cont(s[2]) || !cont(s[3]) {
		return utf8.RuneError, 1
	}
	return rune(c0&0x07)<<18 | rune(s[1]&0x3F)<<12 | rune(s[2]&0x3F)<<6 | rune(s[3]&0x3F), 4
}

func vpModel_unicode_utf8_AppendRune(p []byte, r rune) []byte {
	switch {
	case r >= 0 && r < 0x80:
		return append(p, byte(r))
	case r >= 0 && r < 0x800:
		return append(p, 0xC0|byte(r>>6), 0x80|byte(r)&0x3F)
	case r < 0 || r > 0x10FFFF || (r >= 0xD800 && r <= 0xDFFF):
		return append(p, 0xEF, 0xBF, 0xBD)
	case r < 0x10000:
		return append(p, 0xE0|byte(r>>12), 0x80|byte(r>>6)&0x3F, 0x80|byte(r)&0x3F)
	}
	return append(p, 0xF0|byte(r>>18), 0x80|byte(r>>12)&0x3F, 0x80|byte(r>>6)&0x3F, 0x80|byte(r)&0x3F)
}

// the complete Unicode White_Space property (unicode.IsSpace's definition)
func vpModel_unicode_IsSpace(r rune) bool {
	switch r {
	case '\t', '\n', '\v', '\f', '\r', ' ', 0x85, 0xA0, 0x1680, 0x2028, 0x2029, 0x202F, 0x205F, 0x3000:
		return true
	}
	return r >= 0x2000 && r <= 0x200A
}

// unicode.ToLower on the scripts the alphabet below draws from; anything else is outside the model
func vpModel_unicode_ToLower(r rune) rune {
	switch {
	case r < 0x80:
		if 'A' <= r && r <= 'Z' {
			return r + 32
		}
		return r
	case r >= 0xC0 && r <= 0xDE && r != 0xD7: // Latin-1 capitals
		return r + 32
	case r >= 0xDF && r <= 0xFF, r == 0xA0, r == 0x85: // Latin-1 small letters, NBSP, NEL
		return r
	case r >= 0x410 && r <= 0x42F: // Cyrillic capitals А..Я
		return r + 32
	case r >= 0x430 && r <= 0x44F:
		return r
	case r == 0x200B, r == 0x6771, r == utf8.RuneError: // zero width space, 東, U+FFFD: no case
		return r
	}
	if vpModel_unicode_IsSpace(r) {
		return r // White_Space runes have no case
	}
	vpUnmodelled("unicode.ToLower outside ASCII, Latin-1, basic Cyrillic and the alphabet of c01_unicode.go")
	return r
}

type vpChunk struct {
	text  string
	space bool
	lower string
}

const vpNChunks = 14

// vpChunkAt: the alphabet (a function, not a package-level table: the executor does not run
// package initialisers).
func vpChunkAt(i int) vpChunk {
	switch i {
	case 0:
		return vpChunk{"a", false, "a"}
	case 1:
		return vpChunk{"B", false, "b"}
	case 2:
		return vpChunk{" ", true, ""}
	case 3:
		return vpChunk{"\u00a0", true, ""} // NO-BREAK SPACE      C2 A0
	case 4:
		return vpChunk{"\u0085", true, ""} // NEXT LINE           C2 85
	case 5:
		return vpChunk{"\u1680", true, ""} // OGHAM SPACE MARK    E1 9A 80
	case 6:
		return vpChunk{"\u2003", true, ""} // EM SPACE            E2 80 83
	case 7:
		return vpChunk{"\u3000", true, ""} // IDEOGRAPHIC SPACE   E3 80 80
	case 8:
		return vpChunk{"\u200b", false, "\u200b"} // ZERO WIDTH SPACE: not White_Space (E2 80 8B)
	case 9:
		return vpChunk{"\u00e9", false, "\u00e9"} // e acute            C3 A9
	case 10:
		return vpChunk{"\u00c9", false, "\u00e9"} // E acute -> e acute C3 89
	case 11:
		return vpChunk{"\u00c2", false, "\u00e2"} // A circumflex (lead byte next to NBSP's) C3 82
	case 12:
		return vpChunk{"\u6771", false, "\u6771"} // CJK, no case       E6 9D B1
	}
	return vpChunk{"\u0416", false, "\u0436"} // Cyrillic ZHE -> zhe D0 96 -> D0 B6
}

//vp:bounds texts of 1..3 (thorough 4) chunks drawn from a 14-element alphabet: ASCII lower/upper/space, the spaces U+00A0 U+0085 U+1680 U+2003 U+3000, the non-space U+200B, and the letters é É Â 東 Ж; compared token by token (in order) with split-on-White_Space + lower-case
//vp:maxpaths 400000
func H_C01_fast_tokenizer_handles_multibyte_spaces_and_case() {
	n := 1 + nondetChoice(vpBound(3, 4))
	text := ""
	var want []string
	cur := ""
	for i := 0; i < n; i++ {
		c := vpChunkAt(nondetChoice(vpNChunks))
		text += c.text
		if c.space {
			if cur != "" {
				want = append(want, cur)
				cur = ""
			}
			continue
		}
		cur += c.lower
	}
	if cur != "" {
		want = append(want, cur)
	}
	var got []string
	var buf []byte
	forEachWord(text, func(word string) bool {
		buf = appendFoldedWord(buf[:0], word)
		got = append(got, string(buf))
		return true
	})
	vpAssert(len(got) >= len(want), "C01: the fast tokenizer path produces fewer tokens than 'split on Unicode whitespace, lowercase' (a stored token cannot be found)")
	vpAssert(len(got) <= len(want), "C02: the fast tokenizer path produces more tokens than 'split on Unicode whitespace, lowercase'")
	for i := range want {
		vpAssert(got[i] == want[i], "C01: a token of the fast tokenizer path differs from 'split on Unicode whitespace, lowercase'")
	}
}

var _ = unicode.IsSpace
