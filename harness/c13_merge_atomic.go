package bloomsearch

import (
	"context"
	"errors"
	"io"
	"log/slog"
)

// ---------------------------------------------------------------------------------------------
// C13 — merge is all-or-nothing and commits only durable output. The real Merge / merge /
// executeMergeGroup / abortFileWriter / collectMaybeFiles / WriteFileFooter /
// blockFilterRegionWriter.finish / identifyFileMergeGroups run against stores whose every call
// (iterator, CreateFile, Write, Close, Update, TombstoneFile; OpenFile/Read through the block
// stage) fails or succeeds arbitrarily.
// ---------------------------------------------------------------------------------------------

var vpBlockStageCalls int

// Stand-in for processPartitionBlocks (the block stage is C11/C12/C17's business): it writes to
// the output — so Write faults are reachable at this position — and may itself fail, which stands
// for an OpenFile / Read / CRC failure on a source block at any position.
func vpBlockStageStub(b *BloomSearchEngine, ctx context.Context, writer io.Writer, allBlocks []blockWithFile, blockIndices []int, partitionID string, currentOffset *int, newDataBlocks *[]DataBlockMetadata, fileEntries *bloomEntrySets, filterRegion *blockFilterRegionWriter) error {
	vpBlockStageCalls++
	if nondetBool() {
		return errors.New("source block could not be read")
	}
	if _, err := writer.Write([]byte{1, 2, 3}); err != nil {
		return err
	}
	*currentOffset += 3
	for _, i := range blockIndices {
		blk := allBlocks[i].block
		blk.RowDataOffset = 0
		*newDataBlocks = append(*newDataBlocks, blk)
	}
	return nil
}

func vpMergeEngine(w *vpWorld) *BloomSearchEngine {
	b := &BloomSearchEngine{
		config: BloomSearchEngineConfig{BloomFalsePositiveRate: 0.01, RowDataCompression: CompressionNone,
			MaxRowGroupRows: 1000, MaxRowGroupBytes: 1 << 20, MaxFileSize: 1 << 30, MaxFilesToMergePerOperation: 10},
		metaStore: &vpMeta{w}, dataStore: &vpStore{w},
	}
	if !vpSymbolic() {
		b.logger = slog.New(slog.DiscardHandler)
	}
	return b
}

// vpMergeSources: n one-block files; files 2k and 2k+1 share partition k (so they group pairwise),
// an odd last file stays alone.
func vpMergeSources(n int) []MaybeFile {
	parts := []string{"a", "b", "c"}
	files := make([]MaybeFile, n)
	for i := range files {
		files[i] = MaybeFile{PointerBytes: vpSrcPointer(i), Metadata: FileMetadata{DataBlocks: []DataBlockMetadata{
			{PartitionID: parts[i/2], Rows: 1, UncompressedSize: 6, RowDataSize: 6, BloomFilterSize: 5}}}}
	}
	return files
}

func vpCheckMergeOutcome(w *vpWorld, nFiles int, stats *MergeStats, err error) {
	nGroups := nFiles / 2
	updOK, updFail := w.count(evUpdateOK, -1), w.count(evUpdateFail, -1)
	vpAssert(updOK+updFail <= 1, "C13: MetaStore.Update called more than once by one Merge")
	committed := updOK == 1
	upd := w.first(evUpdateOK, -1)
	if upd < 0 {
		upd = w.first(evUpdateFail, -1)
	}
	created := w.nCreated
	if upd >= 0 {
		// the commit references all outputs and exactly the grouped sources, and every output was
		// closed successfully before
		vpAssert(created == nGroups && len(w.updateWrites) == nGroups, "C13: the commit does not reference one output per merge group")
		for g := 0; g < nGroups; g++ {
			vpAssert(vpFileID(w.updateWrites[g].FilePointerBytes) == g && w.updateWrites[g].FileMetadata != nil, "C13: the commit references something other than the merge outputs")
			cl := w.first(evCloseOK, g)
			vpAssert(cl >= 0 && cl < upd, "C13: commit before an output's Close succeeded")
			vpAssert(w.count(evWriteFail, g) == 0 && w.count(evCloseFail, g) == 0 && w.count(evAbort, g) == 0, "C13: commit references an output with a failed write/close or an aborted one")
		}
		vpAssert(len(w.updateDeletes) == 2*nGroups, "C13: the commit does not unreference exactly the grouped sources")
		seen := make([]int, nFiles)
		for _, d := range w.updateDeletes {
			id := vpFileID(d.FilePointerBytes) - vpSrcBase
			vpAssert(id >= 0 && id < 2*nGroups, "C13: the commit unreferences a file that was not merged")
			seen[id]++
		}
		for i := 0; i < 2*nGroups; i++ {
			vpAssert(seen[i] == 1, "C13: a merged source is not unreferenced exactly once by the commit")
		}
	}
	// sources are tombstoned only after a successful commit
	for i := 0; i < nFiles; i++ {
		t := w.first(evTombstone, vpSrcBase+i)
		if t >= 0 {
			vpAssert(committed && w.first(evUpdateOK, -1) < t, "C13: a source file was tombstoned without / before a successful commit")
			vpAssert(i < 2*nGroups, "C13: a file outside every merge group was tombstoned")
		}
	}
	if committed {
		vpAssert(stats != nil, "C13: merge committed but returned no stats")
		for i := 0; i < 2*nGroups; i++ {
			vpAssert(w.count(evTombstone, vpSrcBase+i) == 1, "C13: a merged source was not tombstoned exactly once after the commit")
		}
		for g := 0; g < created; g++ {
			vpAssert(w.count(evTombstone, g) == 0, "C13: a committed output was tombstoned")
		}
		if err != nil {
			vpAssert(errors.Is(err, ErrPostCommitCleanup), "C13: committed merge returned an error that does not wrap ErrPostCommitCleanup")
		}
	} else {
		if created > 0 || updFail > 0 || w.count(evCreateFail, -1) > 0 {
			vpAssert(err != nil && stats == nil, "C13: merge did not commit but returned success or stats")
		}
		if err != nil {
			vpAssert(!errors.Is(err, ErrPostCommitCleanup), "C13: ErrPostCommitCleanup reported although nothing was committed")
			vpAssert(stats == nil, "C13: stats returned by a merge that did not commit")
		}
		// no partial output remains: every created output was aborted (or fully closed) and tombstoned
		for g := 0; g < created; g++ {
			vpAssert(w.count(evTombstone, g) >= 1, "C13: an output of a merge that did not commit was left un-tombstoned")
			if !w.plainWriter {
				vpAssert(w.count(evAbort, g) >= 1 || w.count(evCloseOK, g) == 1, "C13: a partial output was neither aborted nor completely published before being dropped")
			}
		}
	}
	for g := 0; g < created; g++ {
		vpAssert(w.count(evCloseOK, g)+w.count(evCloseFail, g) <= 1, "C13: an output writer was closed twice")
	}
	if err == nil {
		vpAssert(stats != nil, "C13: nil error without stats")
		if nGroups > 0 {
			vpAssert(committed, "C13: nil error although there was work and nothing was committed")
		}
	}
	if nGroups == 0 && w.count(evIter, -1) == 1 && err == nil {
		vpAssert(created == 0 && updOK+updFail == 0 && w.count(evTombstone, -1) == 0, "C13: a merge with nothing to do touched the stores")
	}
}

//vp:override (*bs.BloomSearchEngine).processPartitionBlocks=vpBlockStageStub
//vp:override (*bs.bloomEntrySets).buildFilters=vpBuildFiltersStub
//vp:bounds 0..5 one-block source files (pairs share a partition: 0..2 merge groups, an odd file ungrouped); the iterator fails at any position or not; every CreateFile / Write / Close / Update / TombstoneFile call and the block stage (OpenFile/Read) fail or succeed arbitrarily; writers with and without Abort
func H_C13_merge_is_all_or_nothing() {
	w := vpNewWorld()
	w.plainWriter = nondetBool()
	w.iterFails, w.iterFailsAnywhere = true, true
	n := nondetChoice(vpBound(5, 6))
	w.files = vpMergeSources(n)
	b := vpMergeEngine(w)
	vpBlockStageCalls = 0
	stats, err := b.Merge(context.Background())
	if w.iterFailed {
		vpAssert(err != nil && stats == nil && w.nCreated == 0 && w.count(evUpdateOK, -1)+w.count(evUpdateFail, -1)+w.count(evTombstone, -1) == 0, "C13: a failed MetaStore iteration did not abort the merge before any store work")
		return
	}
	vpCheckMergeOutcome(w, n, stats, err)
	vpAssert(b.mergeMu.TryLock(), "C13: Merge returned with the single-flight lock still held")
}

// A Merge while another one holds the single-flight lock returns ErrMergeInProgress and touches
// no store; the lock is not released by the refused call.
func H_C13_concurrent_merge_is_refused() {
	w := vpNewWorld()
	w.files = vpMergeSources(2)
	b := vpMergeEngine(w)
	b.mergeMu.Lock()
	stats, err := b.Merge(context.Background())
	vpAssert(stats == nil && errors.Is(err, ErrMergeInProgress), "C13: a Merge during another Merge was not refused with ErrMergeInProgress")
	vpAssert(len(w.events) == 0, "C13: a refused Merge touched a store")
	vpAssert(!b.mergeMu.TryLock(), "C13: a refused Merge released the running merge's lock")
}

// A context already cancelled when the candidate scan ends aborts the merge before any write.
//
//vp:override (*bs.BloomSearchEngine).processPartitionBlocks=vpBlockStageStub
//vp:override (*bs.bloomEntrySets).buildFilters=vpBuildFiltersStub
//vp:bounds 2 source files in one group; cancellation at any context observation or never; every store call fails or succeeds arbitrarily
func H_C13_cancelled_merge_writes_nothing() {
	w := vpNewWorld()
	w.files = vpMergeSources(2)
	b := vpMergeEngine(w)
	ctx := &vpCancelCtx{may: true, done: make(chan struct{})}
	stats, err := b.Merge(ctx)
	if ctx.canceled && w.nCreated == 0 {
		vpAssert(stats == nil && err != nil, "C13: a merge cancelled before its first write reported success")
	}
	vpCheckMergeOutcome(w, 2, stats, err)
}

// ---- end to end on file images: visible content is exactly as before, or the merge committed ----

// vpFaultyImgStore: the in-memory DataStore of img_world.go with arbitrary failures of CreateFile,
// OpenFile, any Read of a source, any Write of the output, Close and TombstoneFile.
type vpFaultyImgStore struct {
	vpImgStore
	tombFailed bool
}

type vpFaultyReader struct {
	vpSymFile
}

func (f *vpFaultyReader) Read(p []byte) (int, error) {
	if nondetBool() {
		return 0, vpInjected()
	}
	return f.vpSymFile.Read(p)
}

type vpFaultyWriter struct {
	vpImgWriter
}

func (f *vpFaultyWriter) Write(p []byte) (int, error) {
	if nondetBool() {
		return 0, vpInjected()
	}
	return f.vpImgWriter.Write(p)
}
func (f *vpFaultyWriter) Close() error {
	if nondetBool() {
		return vpInjected()
	}
	return f.vpImgWriter.Close()
}

func (s *vpFaultyImgStore) CreateFile(ctx context.Context) (io.WriteCloser, []byte, error) {
	if nondetBool() {
		return nil, nil, vpInjected()
	}
	id := s.nCreated
	s.nCreated++
	return &vpFaultyWriter{vpImgWriter{s: &s.vpImgStore, id: id}}, vpPointer(id), nil
}
func (s *vpFaultyImgStore) OpenFile(ctx context.Context, p []byte) (io.ReadSeekCloser, error) {
	if nondetBool() {
		return nil, vpInjected()
	}
	data, ok := s.files[vpFileID(p)]
	if !ok {
		return nil, vpInjected()
	}
	return &vpFaultyReader{vpSymFile{data: data, minOff: -1}}, nil
}
func (s *vpFaultyImgStore) TombstoneFile(ctx context.Context, p []byte) error {
	if nondetBool() {
		s.tombFailed = true
		return vpInjected()
	}
	delete(s.files, vpFileID(p))
	return nil
}

type vpFaultyImgMeta struct {
	vpImgMeta
}

func (m *vpFaultyImgMeta) Update(ctx context.Context, writes []WriteOperation, deletes []DeleteOperation) error {
	if nondetBool() {
		return vpInjected()
	}
	return m.vpImgMeta.Update(ctx, writes, deletes)
}

//vp:override (*bs.bloomEntrySets).indexRow=vpIndexRowRec
//vp:override (*bs.bloomEntrySets).buildFilters=vpBuildFiltersRec
//vp:override bs.encodeFilterSection=vpEncodeSectionConst
//vp:override bs.parseFilterSection=vpParseSectionOK
//vp:maxpaths 600000
//vp:maxsteps 900000
//vp:bounds two one-row files (same partition: their blocks merge; or different partitions: blocks copied) written fault-free by the real write path, then the real Merge — processPartitionBlocks / mergeDataBlocks / copyDataBlock included — against a DataStore and MetaStore in which every CreateFile, OpenFile, source Read, output Write, Close, Update and TombstoneFile call fails or succeeds arbitrarily
func H_C13_merge_leaves_visible_content_as_before_or_commits() {
	iw := vpNewImgWorld()
	ra := []vpRowSpec{{id: "a0", part: "p"}}
	rb := []vpRowSpec{{id: "b0", part: "p"}}
	if nondetBool() {
		rb[0].part = "q"
	}
	ida := iw.flushRows(ra)
	idb := iw.flushRows(rb)
	// from here on the stores may fail
	fstore := &vpFaultyImgStore{vpImgStore: *iw.store}
	fmeta := &vpFaultyImgMeta{vpImgMeta: *iw.meta}
	iw.b.dataStore, iw.b.metaStore = fstore, fmeta
	stats, err := iw.b.Merge(context.Background())
	store, meta := &fstore.vpImgStore, &fmeta.vpImgMeta
	iw.store, iw.meta = store, meta
	committed := len(meta.files) == 1
	if !committed {
		// visible content exactly as before: the same two files are referenced and still hold their rows
		vpAssert(len(meta.files) == 2 && iw.metadataOf(ida) != nil && iw.metadataOf(idb) != nil, "C13: a merge that did not commit changed what the MetaStore references")
		if err == nil {
			// nothing to merge (the two blocks cannot be combined): no store was written to
			vpAssert(store.nCreated == 2 && len(store.files) == 2, "C13: a merge with nothing to do created files")
		} else {
			vpAssert(stats == nil && !errors.Is(err, ErrPostCommitCleanup), "C13: a merge that did not commit reported stats or a post-commit error")
		}
		for _, id := range []int{ida, idb} {
			md := iw.metadataOf(id)
			vpAssert(store.files[id] != nil, "C13: a source of a merge that did not commit was tombstoned")
			got := iw.readBlockRows(id, &md.DataBlocks[0])
			vpAssert(len(got) == 1, "C13: a source of a merge that did not commit no longer holds its row")
		}
		// no partial or orphaned output remains in the store (unless its tombstone itself failed)
		if !fstore.tombFailed {
			vpAssert(len(store.files) == 2, "C13: a merge that did not commit left an unreferenced output in the DataStore")
		}
		return
	}
	// committed: exactly the merged file is referenced, it holds both rows, and it reads back
	vpAssert(stats != nil && (err == nil || errors.Is(err, ErrPostCommitCleanup)), "C13: a committed merge returned no stats or a plain error")
	vpAssert((err != nil) == fstore.tombFailed, "C13: ErrPostCommitCleanup does not reflect whether source cleanup failed")
	out := vpFileID(meta.files[0].PointerBytes)
	vpAssert(out != ida && out != idb && store.files[out] != nil, "C13: the commit does not reference a published output")
	var all []string
	md := iw.metadataOf(out)
	for i := range md.DataBlocks {
		all = append(all, iw.readBlockRows(out, &md.DataBlocks[i])...)
	}
	vpAssert(vpSameMultiset(all, []string{ra[0].text(), rb[0].text()}), "C11/C13: the committed output does not hold exactly the source rows")
	if !fstore.tombFailed {
		vpAssert(len(store.files) == 1, "C13: sources of a committed merge were not tombstoned")
	}
}
