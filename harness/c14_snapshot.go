package bloomsearch

import (
	"context"
	"log/slog"
)

// ---------------------------------------------------------------------------------------------
// C14 — queries concurrent with flushes and merges see a consistent snapshot.
// MemoryMetaStore half:
//   (1) the iterator yields exactly the files present when the iteration began, each once,
//       whatever Update lands between two yields (a merge commit, a flush commit), never holds
//       its lock across a yield (an Update issued from inside the consumer must not deadlock), and
//       Update applies all its writes and deletes;
//   (2) end to end: the real Query pipeline (all goroutines) over the real MemoryMetaStore and an
//       in-memory DataStore holding two flushed files, with the real Merge running concurrently:
//       the query returns every acknowledged row exactly once, or reports an error.
// ---------------------------------------------------------------------------------------------

func vpMetaOf(part string, off int) *FileMetadata {
	return &FileMetadata{DataBlocks: []DataBlockMetadata{{PartitionID: part, RowDataOffset: off, Rows: 1}}}
}

//vp:bounds two files (partitions p/q) in the store, prefilter nil or partition=p; one Update (a merge-like swap of both files for a new one, or a flush-like add) issued before the iteration, from inside the consumer after the 1st or 2nd yield, or never; consumer stops early or not
func H_C14_memory_store_iteration_is_a_snapshot() {
	s := NewMemoryMetaStore()
	ctx := context.Background()
	pa, pb, pm := vpSrcPointer(0), vpSrcPointer(1), vpSrcPointer(2)
	partB := "p"
	if nondetBool() {
		partB = "q"
	}
	vpAssert(s.Update(ctx, []WriteOperation{{FileMetadata: vpMetaOf("p", 0), FilePointerBytes: pa}, {FileMetadata: vpMetaOf(partB, 1), FilePointerBytes: pb}}, nil) == nil, "C14: Update failed")
	var pre *QueryPrefilter
	if nondetBool() {
		e := Partition(PartitionEquals("p"))
		pre = &QueryPrefilter{Expression: &e}
	}
	swap := nondetBool() // merge-like swap, else flush-like add
	updated := false
	update := func() {
		updated = true
		if swap {
			s.Update(ctx, []WriteOperation{{FileMetadata: vpMetaOf("p", 2), FilePointerBytes: pm}}, []DeleteOperation{{FilePointerBytes: pa}, {FilePointerBytes: pb}})
		} else {
			s.Update(ctx, []WriteOperation{{FileMetadata: vpMetaOf("p", 2), FilePointerBytes: pm}}, nil)
		}
	}
	when := nondetChoice(4) // 0 before the iteration, 1/2 after that many yields, 3 never
	if when == 0 {
		update()
	}
	stopAfter := 1 + nondetChoice(3)
	seen := make([]int, 3)
	yields := 0
	for f, err := range s.GetMaybeFilesForQuery(ctx, pre) {
		vpAssert(err == nil, "C14: the in-memory store yielded an error")
		id := vpFileID(f.PointerBytes) - vpSrcBase
		vpAssert(id >= 0 && id < 3, "C14: the store yielded an unknown file")
		seen[id]++
		vpAssert(len(f.Metadata.DataBlocks) == 1 && f.Metadata.DataBlocks[0].RowDataOffset == id, "C14: a yielded file carries another file's metadata")
		yields++
		if yields == when {
			update() // must not deadlock: no lock may be held across a yield
		}
		if yields == stopAfter {
			break
		}
	}
	bVisible := pre == nil || partB == "p"
	if yields < stopAfter { // the iteration ran to its end
		if when == 0 && swap {
			vpAssert(seen[0] == 0 && seen[1] == 0 && seen[2] == 1, "C14: an iteration begun after a committed swap does not see exactly the new file")
		} else if when == 0 {
			vpAssert(seen[0] == 1 && seen[2] == 1 && (seen[1] == 1) == bVisible, "C14: an iteration begun after a committed add does not see every file")
		} else {
			vpAssert(seen[0] == 1 && (seen[1] == 1) == bVisible && seen[1] <= 1, "C14: an iteration does not yield every file present when it began exactly once (a commit landing between two yields changed it)")
			vpAssert(seen[2] == 0, "C14: an iteration yields a file committed after it began (old and new files mixed)")
		}
	}
	for i := range seen {
		vpAssert(seen[i] <= 1, "C14: a file was yielded twice")
	}
	// Update applied everything it was given
	_, hasA := s.files[string(pa)]
	_, hasM := s.files[string(pm)]
	if updated {
		vpAssert(hasM && hasA == !swap, "C14: Update did not apply all of its writes and deletes")
	}
}

func vpMaterializeRaw(rowBytes []byte) (map[string]any, error) {
	return map[string]any{"raw": string(rowBytes)}, nil
}

//vp:override (*bs.bloomEntrySets).indexRow=vpIndexRowRec
//vp:override (*bs.bloomEntrySets).buildFilters=vpBuildFiltersRec
//vp:override bs.encodeFilterSection=vpEncodeSectionStub
//vp:override bs.parseFilterSection=vpParseSectionOK
//vp:override (*bs.compiledRowMatcher).matchRowBytes=vpMatchAll
//vp:override bs.materializeRow=vpMaterializeRaw
//vp:preempt 1
//vp:maxsteps 600000
//vp:bounds two one-row files flushed by the real write path into an in-memory DataStore and the real MemoryMetaStore; the real Query (all goroutines, no conditions, MaxQueryConcurrency 1) drained by the consumer while the real Merge runs in another goroutine; at most 1 forced context switch to any goroutine before any channel/select/mutex operation plus all switches at blocking points
func H_C14_query_racing_a_merge_sees_each_row_once_or_an_error() { vpQueryRacingMerge() }

//vp:override (*bs.bloomEntrySets).indexRow=vpIndexRowRec
//vp:override (*bs.bloomEntrySets).buildFilters=vpBuildFiltersRec
//vp:override bs.encodeFilterSection=vpEncodeSectionStub
//vp:override bs.parseFilterSection=vpParseSectionOK
//vp:override (*bs.compiledRowMatcher).matchRowBytes=vpMatchAll
//vp:override bs.materializeRow=vpMaterializeRaw
//vp:preempt 2
//vp:thorough
//vp:maxpaths 2000000
//vp:maxsteps 600000
//vp:bounds two one-row files flushed by the real write path into an in-memory DataStore and the real MemoryMetaStore; the real Query (all goroutines, no conditions, MaxQueryConcurrency 1) drained by the consumer while the real Merge runs in another goroutine; at most 2 forced context switches to any goroutine before any channel/select/mutex operation plus all switches at blocking points
func H_C14_query_racing_a_merge_two_forced_switches() { vpQueryRacingMerge() }

func vpQueryRacingMerge() {
	iw := vpNewImgWorld()
	mem := NewMemoryMetaStore()
	iw.b.metaStore = mem
	iw.b.logger = slog.New(slog.DiscardHandler)
	iw.b.config.MaxQueryConcurrency = 1
	iw.b.querySemaphore = make(chan struct{}, 1)
	ra := []vpRowSpec{{id: "a0", part: "p"}}
	rb := []vpRowSpec{{id: "b0", part: "p"}}
	iw.flushRowsInto(ra)
	iw.flushRowsInto(rb)
	vpAssert(len(mem.files) == 2, "C06: two acknowledged flushes are not both referenced")
	mergeErr := make(chan error, 1)
	merge := func() {
		_, err := iw.b.Merge(context.Background())
		mergeErr <- err
	}
	mergeFirst := nondetBool() // which pipeline's goroutines exist (and get the processor) first
	if mergeFirst {
		go merge()
	}
	r, err := iw.b.Query(vpNewCtx(nil), NewQuery().Build())
	vpAssert(err == nil, "C20: Query failed")
	if !mergeFirst {
		go merge()
	}
	got := map[string]int{}
	n := 0
	for r.Next() {
		raw, _ := r.Row()["raw"].(string)
		got[raw]++
		n++
		vpAssert(n <= 4, "C14: the query returned more rows than were ever stored")
	}
	if r.Err() == nil {
		vpAssert(got[ra[0].text()] == 1 && got[rb[0].text()] == 1 && n == 2, "C14: a query racing a merge completed without error but did not return every acknowledged row exactly once")
	} else {
		vpAssert(got[ra[0].text()] <= 1 && got[rb[0].text()] <= 1, "C14: a query racing a merge returned a row twice")
	}
	vpAssert(<-mergeErr == nil, "C13: the fault-free merge failed")
	vpAssert(len(mem.files) == 1, "C13: after the merge the MetaStore does not reference exactly the merged file")
}
