package bloomsearch

import (
	"context"
	"log/slog"
	"os"
	"time"
)

// ---------------------------------------------------------------------------------------------
// C15 — the filesystem store is crash-consistent (and the FileSystemDataStore half of C14).
// The real engine write path (processIngestRequest -> handleFlush) and the real Merge run with
// FileSystemDataStore as DataStore *and* MetaStore over the directory model of vpfs.go, which logs
// every mutation (reservation create, temp create, write, fsync, rename, remove, directory fsync).
// The crash point k — any prefix of that log — the kind of crash (process crash: everything the
// kernel had; power loss: the namespace as of some point j between the last directory fsync and k,
// file bytes as of their last fsync or as of k) are chosen per path; the directory a restarted
// process finds is rebuilt and scanned by a fresh store through the real GetMaybeFilesForQuery /
// ReadFileMetadata / ReadDataBlockRowData.
// ---------------------------------------------------------------------------------------------

var vpFSWorldRoot = "/d"

type vpFSWorld struct {
	fs    *vpFSModel
	store *FileSystemDataStore
	b     *BloomSearchEngine
	names int
}

func vpNewFSWorld() *vpFSWorld {
	vpFSWorldRoot = vpFSRoot()
	w := &vpFSWorld{}
	if vpSymbolic() {
		w.fs = vpNewFS()
	}
	w.store = &FileSystemDataStore{rootDir: vpFSWorldRoot}
	// file names are drawn in ascending or descending order, so that an interrupted write's
	// leftovers can sort before or after the files committed earlier
	descending := nondetBool()
	w.store.drawFileName = func() string {
		w.names++
		if descending {
			return "f" + string(rune('9'-w.names))
		}
		return "f" + string(rune('0'+w.names))
	}
	w.b = &BloomSearchEngine{
		config: BloomSearchEngineConfig{BloomFalsePositiveRate: 0.01, RowDataCompression: CompressionNone, Tokenizer: BasicWhitespaceLowerTokenizer,
			MaxRowGroupRows: 1000, MaxRowGroupBytes: 1 << 20, MaxBufferedRows: 1000, MaxBufferedBytes: 1 << 20, MaxBufferedTime: time.Hour,
			MaxFileSize: 1 << 30, MaxFilesToMergePerOperation: 10, PartitionFunc: vpPartitionByP},
		metaStore: w.store, dataStore: w.store, logger: slog.New(slog.DiscardHandler),
	}
	return w
}

// flush runs the real ingest step and the real flush for one batch; reports the acknowledgement.
func (w *vpFSWorld) flush(rows []vpRowSpec) error {
	maps := make([]map[string]any, len(rows))
	for i, r := range rows {
		maps[i] = r.toMap()
	}
	bufs := map[string]*partitionBuffer{}
	var waiters []chan error
	rc, bc := 0, 0
	var started time.Time
	d := make(chan error, 2)
	vpSetClock(2)
	w.b.processIngestRequest(context.Background(), &ingestRequest{rows: maps, doneChan: d}, bufs, &waiters, &rc, &bc, &started)
	w.b.handleFlush(context.Background(), flushRequest{partitionBuffers: bufs, doneChans: waiters})
	vpAssert(len(d) == 1, "C05: a flush was not acknowledged exactly once")
	return <-d
}

// vpScanRows: what a fresh engine over the current directory (vpFS) would serve: every file the
// real scan lists must be completely readable; returns the row texts of all of them.
func vpScanRows() []string {
	store := &FileSystemDataStore{rootDir: vpFSWorldRoot}
	ctx := context.Background()
	var rows []string
	for f, err := range store.GetMaybeFilesForQuery(ctx, nil) {
		vpAssert(err == nil, "C15: the directory scan of a recovered directory failed")
		for i := range f.Metadata.DataBlocks {
			h, oerr := store.OpenFile(ctx, f.PointerBytes)
			vpAssert(oerr == nil, "C15: a file listed after recovery cannot be opened")
			data, rerr := ReadDataBlockRowData(h, &f.Metadata.DataBlocks[i])
			h.Close()
			vpAssert(rerr == nil, "C15: a file visible after the crash is incomplete: a block its footer describes cannot be read")
			sc := NewBlockRowScanner(data)
			for {
				row, ok, serr := sc.Next()
				vpAssert(serr == nil, "C15: a file visible after the crash holds a truncated row")
				if !ok {
					break
				}
				rows = append(rows, string(row))
			}
		}
	}
	return rows
}

func vpCount(rows []string, text string) int {
	n := 0
	for _, r := range rows {
		if r == text {
			n++
		}
	}
	return n
}

// vpCrashAndRecover picks the crash point and kind and installs the recovered directory.
func vpCrashAndRecover(fs *vpFSModel, from int) (k int) {
	k = from + nondetChoice(len(fs.events)+1-from)
	powerLoss := nondetBool()
	j, durableOnly := k, false
	if powerLoss {
		j = nondetChoice(k + 1)
		durableOnly = nondetBool()
	}
	vpFS = fs.vpFSRecover(k, powerLoss, j, durableOnly)
	return k
}

//vp:override (*bs.bloomEntrySets).indexRow=vpIndexRowRec
//vp:override (*bs.bloomEntrySets).buildFilters=vpBuildFiltersRec
//vp:override bs.encodeFilterSection=vpEncodeSectionConst
//vp:override bs.parseFilterSection=vpParseSectionOK
//vp:maxpaths 600000
//vp:maxsteps 900000
//vp:bounds one or two flushes of one row each through the real write path into FileSystemDataStore (as DataStore and MetaStore); the second flush may hit an injected failure of the temp-file fsync, the publishing rename or the directory fsync (failed flush: abort + tombstone); crash after any prefix of the filesystem mutation log; process crash or power loss (namespace as of any point since the last directory fsync, file bytes as of their last fsync or complete)
func HS_C15_flushes_survive_a_crash_at_any_mutation() {
	w := vpNewFSWorld()
	r1 := []vpRowSpec{{id: "a0", part: "p"}}
	r2 := []vpRowSpec{{id: "b0", part: "q"}}
	vpAssert(w.flush(r1) == nil, "C06: a fault-free flush was not acknowledged nil")
	ack1 := len(w.fs.events)
	ack2 := -1
	if nondetBool() {
		switch nondetChoice(4) {
		case 1:
			w.fs.failSyncFile = true
		case 2:
			w.fs.failRename = true
		case 3:
			w.fs.failSyncDir = true
		}
		if w.flush(r2) == nil {
			ack2 = len(w.fs.events)
		}
	}
	k := vpCrashAndRecover(w.fs, 0)
	rows := vpScanRows()
	n1, n2 := vpCount(rows, r1[0].text()), vpCount(rows, r2[0].text())
	vpAssert(n1+n2 == len(rows), "C15: a row that was never ingested is visible after the crash")
	vpAssert(n1 <= 1 && n2 <= 1, "C15: a row is visible more often than it was ingested after the crash")
	if ack1 <= k {
		vpAssert(n1 == 1, "C15: a row acknowledged before the crash is not visible to a new engine")
	}
	if ack2 >= 0 && ack2 <= k {
		vpAssert(n2 == 1, "C15: a row acknowledged before the crash is not visible to a new engine")
	}
}

// Known finding (known_findings.json, C15-merge-window-duplicates): with FileSystemDataStore as
// MetaStore a merge's output becomes visible at its publishing rename while the sources are removed
// afterwards, one by one, by Update (without a directory fsync): a crash — or a query scanning the
// directory (C14) — in that window sees every merged row twice.
//
//vp:known C15-merge-window-duplicates
//vp:override (*bs.bloomEntrySets).indexRow=vpIndexRowRec
//vp:override (*bs.bloomEntrySets).buildFilters=vpBuildFiltersRec
//vp:override bs.encodeFilterSection=vpEncodeSectionConst
//vp:override bs.parseFilterSection=vpParseSectionOK
//vp:maxpaths 600000
//vp:maxsteps 900000
//vp:bounds two one-row files of one partition flushed through the real write path, then the real Merge over FileSystemDataStore as both stores; crash (process crash or power loss) after any prefix of the merge's filesystem mutation log, or a live directory scan at that point
func HS_C15_known_merge_window_shows_rows_twice() {
	w := vpNewFSWorld()
	r1 := []vpRowSpec{{id: "a0", part: "p"}}
	r2 := []vpRowSpec{{id: "b0", part: "p"}}
	vpAssert(w.flush(r1) == nil && w.flush(r2) == nil, "C06: a fault-free flush was not acknowledged nil")
	acked := len(w.fs.events)
	_, err := w.b.Merge(context.Background())
	vpAssert(err == nil, "C13: a fault-free merge failed")
	vpCrashAndRecover(w.fs, acked)
	rows := vpScanRows()
	n1, n2 := vpCount(rows, r1[0].text()), vpCount(rows, r2[0].text())
	vpAssert(n1 <= 1 && n2 <= 1, "C14/C15: between the publication of a merge's output and the removal of its sources every merged row is visible twice (to a restarted engine and to a concurrent directory scan)")
}

// The same merge, observed only at its two quiescent points (before it starts, after it has
// returned) and crash points outside the window: no duplicates, nothing lost.
//
//vp:override (*bs.bloomEntrySets).indexRow=vpIndexRowRec
//vp:override (*bs.bloomEntrySets).buildFilters=vpBuildFiltersRec
//vp:override bs.encodeFilterSection=vpEncodeSectionConst
//vp:override bs.parseFilterSection=vpParseSectionOK
//vp:maxpaths 600000
//vp:maxsteps 900000
//vp:bounds as above: every crash point of the merge's filesystem mutation log and both crash kinds; acknowledged rows are never lost and nothing foreign appears (duplicates inside the window are the known finding above)
func HS_C15_merge_never_loses_acknowledged_rows() {
	w := vpNewFSWorld()
	r1 := []vpRowSpec{{id: "a0", part: "p"}}
	r2 := []vpRowSpec{{id: "b0", part: "p"}}
	vpAssert(w.flush(r1) == nil && w.flush(r2) == nil, "C06: a fault-free flush was not acknowledged nil")
	acked := len(w.fs.events)
	_, err := w.b.Merge(context.Background())
	vpAssert(err == nil, "C13: a fault-free merge failed")
	vpCrashAndRecover(w.fs, acked)
	rows := vpScanRows()
	n1, n2 := vpCount(rows, r1[0].text()), vpCount(rows, r2[0].text())
	vpAssert(n1 >= 1 && n2 >= 1, "C15: a row acknowledged before the merge is lost by a crash during or after the merge")
	vpAssert(n1+n2 == len(rows), "C15: a row that was never ingested is visible after the crash")
}

// C14, FileSystemDataStore half: a query's directory scan is an observer of the live directory.
// Taken at any point of a flush (a cut of the mutation log, everything the kernel has) it sees
// only complete files, nothing foreign and nothing twice, and every row acknowledged before.
//
//vp:override (*bs.bloomEntrySets).indexRow=vpIndexRowRec
//vp:override (*bs.bloomEntrySets).buildFilters=vpBuildFiltersRec
//vp:override bs.encodeFilterSection=vpEncodeSectionConst
//vp:override bs.parseFilterSection=vpParseSectionOK
//vp:maxpaths 600000
//vp:maxsteps 900000
//vp:bounds one acknowledged one-row flush, then a second flush (possibly failing at the temp-file fsync, the rename or the directory fsync) observed by a directory scan at any point of its filesystem mutation log
func HS_C14_directory_scan_during_a_flush_is_consistent() {
	w := vpNewFSWorld()
	r1 := []vpRowSpec{{id: "a0", part: "p"}}
	r2 := []vpRowSpec{{id: "b0", part: "q"}}
	vpAssert(w.flush(r1) == nil, "C06: a fault-free flush was not acknowledged nil")
	acked := len(w.fs.events)
	switch nondetChoice(4) {
	case 1:
		w.fs.failSyncFile = true
	case 2:
		w.fs.failRename = true
	case 3:
		w.fs.failSyncDir = true
	}
	err2 := w.flush(r2)
	k := acked + nondetChoice(len(w.fs.events)+1-acked)
	vpFS = w.fs.vpFSRecover(k, false, k, false) // the live directory after k mutations
	rows := vpScanRows()
	n1, n2 := vpCount(rows, r1[0].text()), vpCount(rows, r2[0].text())
	vpAssert(n1 == 1, "C14: a row acknowledged before the query started is not seen exactly once by a directory scan during a later flush")
	vpAssert(n2 <= 1 && n1+n2 == len(rows), "C14: a directory scan during a flush sees a row twice or a row that was never ingested")
	if err2 == nil && k == len(w.fs.events) {
		vpAssert(n2 == 1, "C14: an acknowledged row is not visible to a scan started afterwards")
	}
}

// Known finding (known_findings.json, C14-fs-merge-window-duplicates): the same observer during a
// merge sees the merged rows twice between the output's rename and the removal of the sources.
//
//vp:known C14-fs-merge-window-duplicates
//vp:override (*bs.bloomEntrySets).indexRow=vpIndexRowRec
//vp:override (*bs.bloomEntrySets).buildFilters=vpBuildFiltersRec
//vp:override bs.encodeFilterSection=vpEncodeSectionConst
//vp:override bs.parseFilterSection=vpParseSectionOK
//vp:maxpaths 600000
//vp:maxsteps 900000
//vp:bounds two one-row files of one partition, then the real Merge over FileSystemDataStore as both stores, observed by a directory scan at any point of the merge's filesystem mutation log
func HS_C14_known_directory_scan_during_a_merge_sees_rows_twice() {
	w := vpNewFSWorld()
	r1 := []vpRowSpec{{id: "a0", part: "p"}}
	r2 := []vpRowSpec{{id: "b0", part: "p"}}
	vpAssert(w.flush(r1) == nil && w.flush(r2) == nil, "C06: a fault-free flush was not acknowledged nil")
	acked := len(w.fs.events)
	_, err := w.b.Merge(context.Background())
	vpAssert(err == nil, "C13: a fault-free merge failed")
	k := acked + nondetChoice(len(w.fs.events)+1-acked)
	vpFS = w.fs.vpFSRecover(k, false, k, false)
	rows := vpScanRows()
	n1, n2 := vpCount(rows, r1[0].text()), vpCount(rows, r2[0].text())
	vpAssert(n1 >= 1 && n2 >= 1 && n1+n2 == len(rows), "C14: a directory scan during a merge loses an acknowledged row or sees a foreign one")
	vpAssert(n1 <= 1 && n2 <= 1, "C14: a directory scan between the publication of a merge's output and the removal of its sources returns every merged row twice, without an error")
}

// Without a crash: what the real write path leaves in the directory is what a fresh store serves.
// Natively this harness runs on a real temporary directory, which validates the directory model
// against the operating system on the sampled paths.
//
//vp:override (*bs.bloomEntrySets).indexRow=vpIndexRowRec
//vp:override (*bs.bloomEntrySets).buildFilters=vpBuildFiltersRec
//vp:override bs.encodeFilterSection=vpEncodeSectionConst
//vp:override bs.parseFilterSection=vpParseSectionOK
//vp:maxsteps 900000
//vp:bounds one or two one-row flushes (same or different partitions) and optionally the real Merge, FileSystemDataStore as both stores, then a fresh store's scan
func H_C15_what_was_acknowledged_is_what_a_fresh_store_serves() {
	w := vpNewFSWorld()
	r1 := []vpRowSpec{{id: "a0", part: "p"}}
	r2 := []vpRowSpec{{id: "b0", part: "p"}}
	if nondetBool() {
		r2[0].part = "q"
	}
	vpAssert(w.flush(r1) == nil, "C06: a fault-free flush was not acknowledged nil")
	two := nondetBool()
	if two {
		vpAssert(w.flush(r2) == nil, "C06: a fault-free flush was not acknowledged nil")
		if nondetBool() {
			_, err := w.b.Merge(context.Background())
			vpAssert(err == nil, "C13: a fault-free merge failed")
		}
	}
	rows := vpScanRows()
	n1, n2 := vpCount(rows, r1[0].text()), vpCount(rows, r2[0].text())
	if !vpSymbolic() {
		os.RemoveAll(vpFSWorldRoot)
	}
	vpAssert(n1 == 1 && (n2 == 1) == two && n1+n2 == len(rows), "C15: a fresh store over the directory does not serve exactly the acknowledged rows")
}
