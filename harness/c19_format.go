package bloomsearch

import (
	"encoding/binary"
	"errors"
	"hash/crc32"
	"io"
)

// ---------------------------------------------------------------------------------------------
// C19 — corrupted or malformed files fail cleanly.
//
// Every Go run-time check (index, slice, make, nil dereference, conversion) met while executing
// the read helpers is a proof obligation of the executor: "no panic" is asserted, not assumed.
// ---------------------------------------------------------------------------------------------

// vpSymFile is an io.ReadSeekCloser over a byte array of arbitrary length and content.
type vpSymFile struct {
	data   []byte
	pos    int64
	reads  int
	closed bool
	maxEnd int64 // furthest byte offset ever read (ghost)
	minOff int64 // lowest byte offset ever read (ghost), -1 if none
	log    []vpReadExtent
}

// vpReadExtent: one Read call's extent (ghost).
type vpReadExtent struct{ off, n int64 }

func (f *vpSymFile) Seek(off int64, whence int) (int64, error) {
	var np int64
	switch whence {
	case io.SeekStart:
		np = off
	case io.SeekEnd:
		np = int64(len(f.data)) + off
	default:
		np = f.pos + off
	}
	if np < 0 {
		return 0, errors.New("seek before start of file")
	}
	f.pos = np
	return np, nil
}

func (f *vpSymFile) Read(p []byte) (int, error) {
	if len(p) == 0 {
		return 0, nil
	}
	if f.pos >= int64(len(f.data)) {
		return 0, io.EOF
	}
	n := int64(len(p))
	if rem := int64(len(f.data)) - f.pos; rem < n {
		n = rem
	}
	copy(p[:n], f.data[f.pos:f.pos+n])
	if f.minOff < 0 || f.pos < f.minOff {
		f.minOff = f.pos
	}
	f.log = append(f.log, vpReadExtent{f.pos, n})
	f.pos += n
	if f.pos > f.maxEnd {
		f.maxEnd = f.pos
	}
	f.reads++
	return int(n), nil
}

func (f *vpSymFile) Close() error { f.closed = true; return nil }

// vpNewSymFile: files up to 1 TiB (beyond 2^47 bytes Go's make itself refuses the allocation even
// for sizes that are within the file, which is outside the property).
func vpNewSymFile() *vpSymFile {
	f := &vpSymFile{data: nondetSymBytes(), minOff: -1}
	vpAssume(len(f.data) < 1<<40)
	return f
}

// vpGetScanBuffer / vpPutScanBuffer replace the pooled allocator in these harnesses (the pool's
// own arithmetic is the subject of C03): a fresh buffer of exactly the requested size.
func vpGetScanBuffer(size int) []byte {
	if size <= 0 {
		return nil
	}
	return make([]byte, size)
}
func vpPutScanBuffer(buf []byte) {}

func vpArbitraryBlock() DataBlockMetadata {
	return DataBlockMetadata{
		RowDataOffset: nondetInt(), RowDataSize: nondetInt(),
		BloomFilterOffset: nondetInt(), BloomFilterSize: nondetInt(),
		Rows: nondetInt(), UncompressedSize: nondetInt(),
		RowDataHash: nondetUint32(), HasRowDataHash: nondetBool(),
		Compression: CompressionNone,
	}
}

// vpContained: [off, off+size) lies inside [lo, hi] — stated without any addition that could wrap.
func vpContained(off, size, lo, hi int64) bool {
	return size >= 0 && off >= lo && off <= hi && size <= hi-off
}

//vp:bounds 2 blocks; every offset/size field, the region fields and the data limit are unconstrained 64-bit ints
func H_C19_validate_implies_containment() {
	m := &FileMetadata{
		BlockFilterRegionOffset: nondetInt(),
		BlockFilterRegionSize:   nondetInt(),
		DataBlocks:              []DataBlockMetadata{vpArbitraryBlock(), vpArbitraryBlock()},
	}
	limit := nondetInt64()
	if m.validate(limit) != nil {
		return
	}
	ro, rs := int64(m.BlockFilterRegionOffset), int64(m.BlockFilterRegionSize)
	vpAssert(limit >= 0 && vpContained(ro, rs, 0, limit), "C19: validate accepted a block filter region outside the data area")
	for i := range m.DataBlocks {
		b := &m.DataBlocks[i]
		vpAssert(vpContained(int64(b.RowDataOffset), int64(b.RowDataSize), 0, ro), "C19: validate accepted row data outside [0, region)")
		if b.BloomFilterSize != 0 {
			vpAssert(vpContained(int64(b.BloomFilterOffset), int64(b.BloomFilterSize), ro, ro+rs), "C19: validate accepted a filter section outside the region")
		}
	}
}

//vp:bounds 2 blocks, unconstrained 64-bit fields
func H_C19_plan_implies_containment() {
	blocks := []DataBlockMetadata{vpArbitraryBlock(), vpArbitraryBlock()}
	ro, rs := nondetInt(), nondetInt()
	start, end, has, err := planBlockFilterReads(blocks, ro, rs)
	if err != nil {
		return
	}
	vpAssert(start == int64(ro) && ro >= 0 && rs >= 0 && end >= start && end-start == int64(rs), "C19: planBlockFilterReads accepted an overflowing or negative region")
	any := false
	for i := range blocks {
		b := &blocks[i]
		if b.BloomFilterSize != 0 {
			any = true
			vpAssert(vpContained(int64(b.BloomFilterOffset), int64(b.BloomFilterSize), start, end), "C19: planBlockFilterReads accepted a section outside the region")
		}
	}
	vpAssert(has == any, "C19: hasSections does not say whether a block has a section")
}

// vpFixCRC: natively, make the trailing CRC32C of a section valid so that the replay gets past the
// checksum (the symbolic CRC is an uninterpreted value that may or may not match). Identity under
// the symbolic executor.
func vpFixCRC(section []byte) []byte {
	if len(section) >= HashSize+1 {
		binary.LittleEndian.PutUint32(section[len(section)-HashSize:], crc32.Checksum(section[:len(section)-HashSize], crc32cTable))
	}
	return section
}

//vp:bounds section of arbitrary length (< 2^62) and arbitrary content (SMT array); CRC outcome and each bloom decode outcome arbitrary
func H_C19_parse_filter_section_memory_safe() {
	section := vpFixCRC(nondetSymBytes())
	filters, err := parseFilterSection(section)
	if err == nil {
		vpAssert(filters != nil, "C19: nil filters without error")
		vpAssert(len(section) >= HashSize+1, "C19: section shorter than its framing accepted")
	}
}

//vp:bounds decoded row data of arbitrary length/content, scanner position anywhere in [0,len]
func H_C19_row_scanner_step() {
	data := nondetSymBytes()
	pos := nondetInt()
	vpAssume(pos >= 0 && pos <= len(data))
	s := &BlockRowScanner{data: data, pos: pos}
	row, ok, err := s.Next()
	if err != nil {
		vpAssert(!ok && row == nil, "C19: scanner returned a row together with an error")
		return
	}
	if !ok {
		vpAssert(pos == len(data), "C19: scanner stopped before the end of the section without an error")
		return
	}
	vpAssert(s.pos > pos && s.pos <= len(data), "C19: scanner position did not advance within the section")
	vpAssert(len(row) == s.pos-pos-LengthPrefixSize, "C19: row length disagrees with the bytes consumed")
	if len(row) > 0 {
		j := nondetInt()
		vpAssume(j >= 0 && j < len(row))
		vpAssert(row[j] == data[pos+LengthPrefixSize+j], "C19: row bytes are not the bytes at the scanner position")
	}
}

//vp:bounds chunk buffer of arbitrary length, arbitrary chunk start and section offset/size
func H_C19_held_section_is_the_blocks_bytes() {
	buf := nondetSymBytes()
	c := &blockFilterCursor{buf: buf, chunkStart: nondetInt64()}
	b := &DataBlockMetadata{BloomFilterOffset: nondetInt(), BloomFilterSize: nondetInt()}
	vpAssume(b.BloomFilterSize >= 0)
	sec, ok := c.heldSection(b)
	if ok {
		vpAssert(len(sec) == b.BloomFilterSize, "C19: held section has the wrong length")
		if len(sec) > 0 {
			j := nondetInt()
			vpAssume(j >= 0 && j < len(sec))
			vpAssert(sec[j] == buf[int64(b.BloomFilterOffset)-c.chunkStart+int64(j)], "C19/C01: held section is not the block's bytes")
		}
	}
}

// ---- whole-footer parse over an arbitrary file image ----

var vpPendingMeta *fileMetadataJSON

// vpUnmarshalArbitrary replaces encoding/json.Unmarshal: "CRC-consistent metadata whose offsets and
// sizes are arbitrary" — the decoded value is an arbitrary fileMetadataJSON (<= 2 blocks).
func vpUnmarshalArbitrary(data []byte, v any) error {
	if nondetBool() {
		return errors.New("json: syntax error")
	}
	m, ok := v.(*fileMetadataJSON)
	vpAssert(ok, "harness: unexpected json.Unmarshal target")
	*m = fileMetadataJSON{
		BlockFilterRegionOffset: nondetInt(),
		BlockFilterRegionSize:   nondetInt(),
		FileFilterSectionSize:   nondetInt(),
	}
	switch nondetChoice(3) {
	case 1:
		m.DataBlocks = []DataBlockMetadata{vpArbitraryBlock()}
	case 2:
		m.DataBlocks = []DataBlockMetadata{vpArbitraryBlock(), vpArbitraryBlock()}
	}
	return nil
}

//vp:override encoding/json.Unmarshal=vpUnmarshalArbitrary
//vp:bounds file of arbitrary size (< 2^40) and content; decoded metadata arbitrary with <= 2 blocks; CRC outcomes arbitrary
func HS_C19_read_file_metadata_arbitrary_file() {
	f := vpNewSymFile()
	size := int64(len(f.data))
	m, gotSize, err := ReadFileMetadata(f)
	vpAssert(int64(vpMaxAllocSize()) <= size, "C19: ReadFileMetadata allocated more than the file's size")
	if err != nil {
		return
	}
	vpAssert(gotSize == size, "C19: wrong file size reported")
	ro, rs := int64(m.BlockFilterRegionOffset), int64(m.BlockFilterRegionSize)
	vpAssert(vpContained(ro, rs, 0, size), "C19: accepted metadata whose block filter region is outside the file")
	for i := range m.DataBlocks {
		b := &m.DataBlocks[i]
		vpAssert(vpContained(int64(b.RowDataOffset), int64(b.RowDataSize), 0, ro), "C19: accepted metadata whose row data is outside the file's data area")
		if b.BloomFilterSize != 0 {
			vpAssert(vpContained(int64(b.BloomFilterOffset), int64(b.BloomFilterSize), ro, ro+rs), "C19: accepted metadata whose filter section is outside the region")
		}
	}
}

//vp:override bs.getScanBuffer=vpGetScanBuffer
//vp:override bs.putScanBuffer=vpPutScanBuffer
//vp:bounds file of arbitrary size (< 2^40) and content; one block with arbitrary extents that passed validate(); CompressionNone
func HS_C19_validated_block_reads_stay_in_file() {
	f := vpNewSymFile()
	size := int64(len(f.data))
	m := &FileMetadata{BlockFilterRegionOffset: nondetInt(), BlockFilterRegionSize: nondetInt(), DataBlocks: []DataBlockMetadata{vpArbitraryBlock()}}
	limit := nondetInt64()
	vpAssume(limit <= size)
	vpAssume(m.validate(limit) == nil)
	b := &m.DataBlocks[0]
	if nondetBool() {
		rows, err := ReadDataBlockRowData(f, b)
		vpAssert(int64(vpMaxAllocSize()) <= size, "C19: ReadDataBlockRowData allocated more than the file's size")
		if err == nil {
			vpAssert(len(rows) == b.RowDataSize, "C19: row data has the wrong length")
			vpAssert(f.maxEnd <= int64(b.RowDataOffset)+int64(b.RowDataSize) && (f.minOff < 0 || f.minOff >= int64(b.RowDataOffset)), "C19/C24: read outside the block's declared row data extent")
			if len(rows) > 0 {
				j := nondetInt()
				vpAssume(j >= 0 && j < len(rows))
				vpAssert(rows[j] == f.data[b.RowDataOffset+j], "C19: row data is not the file's bytes at the declared offset")
			}
		}
		return
	}
	_, err := ReadDataBlockBloomFilters(f, *b)
	vpAssert(int64(vpMaxAllocSize()) <= size, "C19: ReadDataBlockBloomFilters allocated more than the file's size")
	if err == nil && b.BloomFilterSize > 0 {
		vpAssert(f.minOff >= int64(b.BloomFilterOffset) && f.maxEnd <= int64(b.BloomFilterOffset)+int64(b.BloomFilterSize), "C19/C24: read outside the block's declared filter section")
	}
}

// A row data CRC mismatch is reported before any row can be produced.
//
//vp:bounds arbitrary compressed bytes and hash; CompressionNone and ""
func H_C19_crc_mismatch_yields_no_rows() {
	data := nondetSymBytes()
	b := &DataBlockMetadata{RowDataHash: nondetUint32(), HasRowDataHash: true, Compression: CompressionNone}
	if nondetBool() {
		b.Compression = ""
	}
	want := crc32.Checksum(data, crc32cTable)
	out, err := decodeBlockRowDataInto(nil, data, b)
	if want != b.RowDataHash {
		vpAssert(err != nil && out == nil, "C19: row data with a CRC mismatch was accepted")
	} else {
		vpAssert(err == nil && len(out) == len(data), "C19: row data with a matching CRC was rejected")
	}
}

// A file truncated inside its block filter region: the failed chunk read must not leave the query
// with a buffer that two later scans share (details: C03's buffer typestate).
//
//vp:override bs.getScanBuffer=vpGetTracked
//vp:override bs.putScanBuffer=vpPutTracked
//vp:override bs.parseFilterSection=vpParseSectionStub
//vp:bounds as H_C03_filter_chunk_buffers_are_given_back_at_most_once
func H_C19_truncated_filter_region_does_not_poison_the_buffer_pool() {
	H_C03_filter_chunk_buffers_are_given_back_at_most_once()
}
