package bloomsearch

import (
	"math"
	"time"
)

// ---------------------------------------------------------------------------------------------
// C04 — prefilters never prune a block holding a row that satisfies them.
//
// Oracle: the row's *mathematical* value (which may lie outside int64: huge uint64, float64
// beyond 2^63, ±Inf) compared with the condition's int64 operands. Written here from the
// statement, independently of EvaluateNumericCondition.
// ---------------------------------------------------------------------------------------------

func vpOp() QueryOperator {
	switch nondetChoice(11) {
	case 0:
		return OpEqual
	case 1:
		return OpNotEqual
	case 2:
		return OpGreaterThan
	case 3:
		return OpGreaterThanEqual
	case 4:
		return OpLessThan
	case 5:
		return OpLessThanEqual
	case 6:
		return OpBetween
	case 7:
		return OpNotBetween
	case 8:
		return OpIn
	case 9:
		return OpNotIn
	}
	return "BOGUS"
}

// vpNumericCondition: any operator, any operands, IN/NOT_IN lists of 0..2 values.
func vpNumericCondition() NumericCondition {
	c := NumericCondition{Operator: vpOp(), Value: nondetInt64(), Min: nondetInt64(), Max: nondetInt64()}
	if c.Operator == OpIn || c.Operator == OpNotIn {
		switch nondetChoice(3) {
		case 1:
			c.Values = []int64{nondetInt64()}
		case 2:
			c.Values = []int64{nondetInt64(), nondetInt64()}
		}
	}
	return c
}

// vpCmp describes a mathematical value v relative to an int64 operand c:
// -1: v<c, 0: v==c, +1: v>c.
//
// A value is given as (fl, frac, big): big=+1 means v >= 2^63, big=-1 means v < -2^63, otherwise
// v = fl + (frac ? something in (0,1) : 0) with fl = floor(v) an int64.
type vpMathVal struct {
	fl   int64
	frac bool
	big  int
}

func (v vpMathVal) cmp(c int64) int {
	if v.big > 0 {
		return 1
	}
	if v.big < 0 {
		return -1
	}
	if v.fl > c {
		return 1
	}
	if v.fl < c {
		return -1
	}
	if v.frac {
		return 1
	}
	return 0
}

// specSatisfies is the documented meaning of a numeric condition for a row value.
func specSatisfies(v vpMathVal, c NumericCondition) bool {
	switch c.Operator {
	case OpEqual:
		return v.cmp(c.Value) == 0
	case OpNotEqual:
		return v.cmp(c.Value) != 0
	case OpGreaterThan:
		return v.cmp(c.Value) > 0
	case OpGreaterThanEqual:
		return v.cmp(c.Value) >= 0
	case OpLessThan:
		return v.cmp(c.Value) < 0
	case OpLessThanEqual:
		return v.cmp(c.Value) <= 0
	case OpBetween:
		return v.cmp(c.Min) >= 0 && v.cmp(c.Max) <= 0
	case OpNotBetween:
		return v.cmp(c.Min) < 0 || v.cmp(c.Max) > 0
	case OpIn:
		for _, x := range c.Values {
			if v.cmp(x) == 0 {
				return true
			}
		}
		return false
	case OpNotIn:
		for _, x := range c.Values {
			if v.cmp(x) == 0 {
				return false
			}
		}
		return true
	}
	return false // unknown operators are satisfied by nothing
}

// vpTightRange is the tightest int64 range that must be covered for a value: [floor, ceil],
// saturated at the int64 extremes for values beyond them.
func vpTightRange(v vpMathVal) (int64, int64) {
	if v.big > 0 {
		return math.MaxInt64, math.MaxInt64
	}
	if v.big < 0 {
		return math.MinInt64, math.MinInt64
	}
	if v.frac {
		return v.fl, v.fl + 1
	}
	return v.fl, v.fl
}

// vpCheckConversion (lemma L, per Go kind): the value is indexed, and the range the real
// conversion yields covers the value's tight range (so saturation is recorded for values
// beyond int64). Anything narrower lets the kernel below prune a satisfying row.
func vpCheckConversion(value any, mv vpMathVal) {
	lo, hi, ok := ConvertToMinMaxInt64(value)
	vpAssert(ok, "C04: numeric value is not indexed (ConvertToMinMaxInt64 ok=false)")
	vpAssume(!(mv.frac && mv.fl == math.MaxInt64)) // no float64 has floor 2^63-1 and a fraction
	tl, th := vpTightRange(mv)
	vpAssert(lo <= tl && th <= hi, "C04: converted min/max does not cover the value (a satisfying row can be pruned)")
}

func vpCheckNeverPruned(value any, mv vpMathVal) { vpCheckConversion(value, mv) }

// Kernel (pure bit-vector): for ANY mathematical value, any index that covers its tight range
// (which UpdateMinMaxIndex / first-row initialisation guarantee, see below) and any condition the
// value satisfies, the block is kept.
//
//vp:bounds any value (int64 floor, fraction flag, beyond-int64 flags), any covering index, 11 operators (10 real + unknown), IN lists <= 2
func H_C04_kernel_value_never_pruned() {
	mv := vpMathVal{fl: nondetInt64(), frac: nondetBool()}
	switch nondetChoice(3) {
	case 1:
		mv = vpMathVal{big: 1}
	case 2:
		mv = vpMathVal{big: -1}
	}
	vpAssume(!(mv.frac && mv.fl == math.MaxInt64))
	tl, th := vpTightRange(mv)
	idx := MinMaxIndex{Min: nondetInt64(), Max: nondetInt64()}
	vpAssume(idx.Min <= tl && th <= idx.Max)
	c := vpNumericCondition()
	vpAssume(specSatisfies(mv, c))
	vpAssert(EvaluateMinMaxCondition(idx, c), "C04: block holding a satisfying row is pruned by the minmax prefilter")
}

// The index update used at ingest and merge covers both the previous range and the new one.
func H_C04_update_covers() {
	prev := MinMaxIndex{Min: nondetInt64(), Max: nondetInt64()}
	lo, hi := nondetInt64(), nondetInt64()
	got := UpdateMinMaxIndex(prev, lo, hi)
	vpAssert(got.Min <= lo && hi <= got.Max, "C04: updated index does not cover the new value's range")
	vpAssert(got.Min <= prev.Min && prev.Max <= got.Max, "C04: updated index lost coverage of earlier rows")
}

func vpSignedVal(x int64) vpMathVal { return vpMathVal{fl: x} }
func vpUnsignedVal(x uint64) vpMathVal {
	if x > math.MaxInt64 {
		return vpMathVal{big: 1}
	}
	return vpMathVal{fl: int64(x)}
}

type (
	vpNamedInt  int
	vpNamedI8   int8
	vpNamedI16  int16
	vpNamedI32  int32
	vpNamedI64  int64
	vpNamedUint uint
	vpNamedU8   uint8
	vpNamedU16  uint16
	vpNamedU32  uint32
	vpNamedU64  uint64
	vpNamedUptr uintptr
	vpNamedF32  float32
	vpNamedF64  float64
)

//vp:bounds every built-in signed integer kind, full value range, 11 operators (10 real + unknown), IN lists <= 2, arbitrary previous index
func H_C04_signed_kinds() {
	switch nondetChoice(5) {
	case 0:
		x := nondetInt64()
		vpCheckNeverPruned(x, vpSignedVal(x))
	case 1:
		x := nondetInt()
		vpCheckNeverPruned(x, vpSignedVal(int64(x)))
	case 2:
		x := nondetInt32()
		vpCheckNeverPruned(x, vpSignedVal(int64(x)))
	case 3:
		x := nondetInt16()
		vpCheckNeverPruned(x, vpSignedVal(int64(x)))
	default:
		x := nondetInt8()
		vpCheckNeverPruned(x, vpSignedVal(int64(x)))
	}
}

//vp:bounds every built-in unsigned integer kind incl. uintptr, full value range (values above MaxInt64 included)
func H_C04_unsigned_kinds() {
	switch nondetChoice(6) {
	case 0:
		x := nondetUint64()
		vpCheckNeverPruned(x, vpUnsignedVal(x))
	case 1:
		x := uint(nondetUint64())
		vpCheckNeverPruned(x, vpUnsignedVal(uint64(x)))
	case 2:
		x := nondetUint32()
		vpCheckNeverPruned(x, vpUnsignedVal(uint64(x)))
	case 3:
		x := nondetUint16()
		vpCheckNeverPruned(x, vpUnsignedVal(uint64(x)))
	case 4:
		x := nondetUint8()
		vpCheckNeverPruned(x, vpUnsignedVal(uint64(x)))
	default:
		x := uintptr(nondetUint64())
		vpCheckNeverPruned(x, vpUnsignedVal(uint64(x)))
	}
}

//vp:bounds named types of every numeric kind (time.Duration and harness-declared), full value range
func H_C04_named_kinds() {
	switch nondetChoice(14) {
	case 0:
		x := time.Duration(nondetInt64())
		vpCheckNeverPruned(x, vpSignedVal(int64(x)))
	case 1:
		x := vpNamedInt(nondetInt())
		vpCheckNeverPruned(x, vpSignedVal(int64(x)))
	case 2:
		x := vpNamedI8(nondetInt8())
		vpCheckNeverPruned(x, vpSignedVal(int64(x)))
	case 3:
		x := vpNamedI16(nondetInt16())
		vpCheckNeverPruned(x, vpSignedVal(int64(x)))
	case 4:
		x := vpNamedI32(nondetInt32())
		vpCheckNeverPruned(x, vpSignedVal(int64(x)))
	case 5:
		x := vpNamedI64(nondetInt64())
		vpCheckNeverPruned(x, vpSignedVal(int64(x)))
	case 6:
		x := vpNamedUint(nondetUint64())
		vpCheckNeverPruned(x, vpUnsignedVal(uint64(x)))
	case 7:
		x := vpNamedU8(nondetUint8())
		vpCheckNeverPruned(x, vpUnsignedVal(uint64(x)))
	case 8:
		x := vpNamedU16(nondetUint16())
		vpCheckNeverPruned(x, vpUnsignedVal(uint64(x)))
	case 9:
		x := vpNamedU32(nondetUint32())
		vpCheckNeverPruned(x, vpUnsignedVal(uint64(x)))
	case 10:
		x := vpNamedU64(nondetUint64())
		vpCheckNeverPruned(x, vpUnsignedVal(uint64(x)))
	case 11:
		x := vpNamedUptr(nondetUint64())
		vpCheckNeverPruned(x, vpUnsignedVal(uint64(x)))
	case 12:
		f := nondetFloat64()
		vpAssume(f == f)
		vpCheckNeverPruned(vpNamedF64(f), vpFloatVal(f))
	default:
		f := nondetFloat32()
		vpAssume(f == f)
		vpCheckNeverPruned(vpNamedF32(f), vpFloatVal(float64(f)))
	}
}

// vpFloatVal: mathematical description of a non-NaN float64 (±Inf included).
func vpFloatVal(f float64) vpMathVal {
	if f >= 9223372036854775808.0 {
		return vpMathVal{big: 1}
	}
	if f < -9223372036854775808.0 {
		return vpMathVal{big: -1}
	}
	fl := math.Floor(f)
	return vpMathVal{fl: int64(fl), frac: fl != f}
}

//vp:bounds every float64 except NaN (±Inf, subnormals, beyond ±2^63 included), 11 operators, arbitrary previous index
func H_C04_float64() {
	f := nondetFloat64()
	vpAssume(f == f) // NaN is documented as not indexed
	vpCheckNeverPruned(f, vpFloatVal(f))
}

//vp:bounds every float32 except NaN
func H_C04_float32() {
	f := nondetFloat32()
	vpAssume(f == f)
	vpCheckNeverPruned(f, vpFloatVal(float64(f)))
}

// NaN is documented as not indexed: ok must be false (so no bogus range enters the index).
func H_C04_nan_not_indexed() {
	f := nondetFloat64()
	vpAssume(f != f)
	_, _, ok := ConvertToMinMaxInt64(f)
	vpAssert(!ok, "C04: NaN produced an index entry")
}

// Merge: the range recorded for a merged block covers the ranges of both sources, so every
// condition that kept a source block keeps the merged block.
//
//vp:bounds two arbitrary source ranges (Min<=Max each), all operators
func H_C04_merged_range_keeps_what_sources_kept() {
	a := MinMaxIndex{Min: nondetInt64(), Max: nondetInt64()}
	b := MinMaxIndex{Min: nondetInt64(), Max: nondetInt64()}
	vpAssume(a.Min <= a.Max && b.Min <= b.Max)
	m := UpdateMinMaxIndex(a, b.Min, b.Max)
	vpAssert(m.Min <= a.Min && m.Min <= b.Min && m.Max >= a.Max && m.Max >= b.Max, "C04: merged range does not cover its sources")
	c := vpNumericCondition()
	vpAssume(EvaluateMinMaxCondition(a, c) || EvaluateMinMaxCondition(b, c))
	vpAssert(EvaluateMinMaxCondition(m, c), "C04: merged block pruned although a source block was kept")
}

// The same for the function Merge really calls on the blocks it combines (merge.go:
// mergeMinMaxIndexes, over whole key maps): the merged block's range for every key covers the range
// either source recorded for it, no key is lost or invented, and the sources' maps are left alone.
//
//vp:bounds two source blocks whose key sets are drawn from {u, v} (each key present or absent in each block), arbitrary int64 ranges with Min<=Max
func H_C11_merged_block_ranges_cover_both_sources() {
	b := &BloomSearchEngine{}
	keys := []string{"u", "v"}
	mk := func() map[string]MinMaxIndex {
		m := map[string]MinMaxIndex{}
		for _, k := range keys {
			if nondetBool() {
				x := MinMaxIndex{Min: nondetInt64(), Max: nondetInt64()}
				vpAssume(x.Min <= x.Max)
				m[k] = x
			}
		}
		return m
	}
	i1, i2 := mk(), mk()
	n1, n2 := len(i1), len(i2)
	var before [2][2]MinMaxIndex
	for j, k := range keys {
		before[0][j], before[1][j] = i1[k], i2[k]
	}
	m := b.mergeMinMaxIndexes(i1, i2)
	for j, k := range keys {
		a, okA := i1[k]
		c, okC := i2[k]
		r, okR := m[k]
		vpAssert(okR == (okA || okC), "C11/C12: merging two blocks lost or invented a minmax key")
		if okA {
			vpAssert(r.Min <= a.Min && r.Max >= a.Max, "C11: the merged block's minmax range does not cover the first source block's range (rows fall outside their block's range)")
		}
		if okC {
			vpAssert(r.Min <= c.Min && r.Max >= c.Max, "C11: the merged block's minmax range does not cover the second source block's range (rows fall outside their block's range)")
		}
		if okA && okC {
			lo, hi := a.Min, a.Max
			if c.Min < lo {
				lo = c.Min
			}
			if c.Max > hi {
				hi = c.Max
			}
			vpAssert(r.Min == lo && r.Max == hi, "C24: the merged range is wider than the union of its sources")
		}
		vpAssert(i1[k] == before[0][j] && i2[k] == before[1][j], "C11: merging changed a source block's recorded range")
	}
	vpAssert(len(i1) == n1 && len(i2) == n2, "C11: merging changed a source block's key set")
}

// Widening an index never turns "kept" into "pruned" (monotonicity; this is what makes the
// inductive argument over many rows/merges go through).
func H_C04_widening_is_monotone() {
	a := MinMaxIndex{Min: nondetInt64(), Max: nondetInt64()}
	w := MinMaxIndex{Min: nondetInt64(), Max: nondetInt64()}
	vpAssume(a.Min <= a.Max && w.Min <= a.Min && a.Max <= w.Max)
	c := vpNumericCondition()
	vpAssume(EvaluateMinMaxCondition(a, c))
	vpAssert(EvaluateMinMaxCondition(w, c), "C04: widening a range pruned a block that was kept")
}

// ---------------------------------------------------------------------------------------------
// Partition conditions and AND/OR trees.
// ---------------------------------------------------------------------------------------------

func vpStrLess(a, b string) bool {
	n := len(a)
	if len(b) < n {
		n = len(b)
	}
	for i := 0; i < n; i++ {
		if a[i] != b[i] {
			return a[i] < b[i]
		}
	}
	return len(a) < len(b)
}

// specStringSatisfies: documented meaning of a partition condition (byte-wise lexicographic order).
func specStringSatisfies(v string, c StringCondition) bool {
	switch c.Operator {
	case OpEqual:
		return v == c.Value
	case OpNotEqual:
		return v != c.Value
	case OpGreaterThan:
		return vpStrLess(c.Value, v)
	case OpGreaterThanEqual:
		return !vpStrLess(v, c.Value)
	case OpLessThan:
		return vpStrLess(v, c.Value)
	case OpLessThanEqual:
		return !vpStrLess(c.Value, v)
	case OpBetween:
		return !vpStrLess(v, c.Min) && !vpStrLess(c.Max, v)
	case OpNotBetween:
		return vpStrLess(v, c.Min) || vpStrLess(c.Max, v)
	case OpIn:
		for _, x := range c.Values {
			if v == x {
				return true
			}
		}
		return false
	case OpNotIn:
		for _, x := range c.Values {
			if v == x {
				return false
			}
		}
		return true
	}
	return false
}

func vpStringCondition(maxLen int) StringCondition {
	c := StringCondition{Operator: vpOp()}
	switch c.Operator {
	case OpIn, OpNotIn:
		switch nondetChoice(3) {
		case 1:
			c.Values = []string{nondetString(maxLen)}
		case 2:
			c.Values = []string{nondetString(maxLen), nondetString(maxLen)}
		}
	case OpBetween, OpNotBetween:
		c.Min, c.Max = nondetString(maxLen), nondetString(maxLen)
	default:
		c.Value = nondetString(maxLen)
	}
	return c
}

//vp:bounds partition IDs of 1..2 arbitrary bytes, operands of 0..2 arbitrary bytes, 11 operators, IN lists <= 2
func H_C04_partition_condition_never_prunes() {
	p := nondetString(2)
	vpAssume(len(p) > 0) // a block without partition metadata is excluded by the documented strict semantics (C02)
	c := vpStringCondition(2)
	vpAssume(specStringSatisfies(p, c))
	md := &DataBlockMetadata{PartitionID: p}
	cond := &PrefilterCondition{ConditionType: PrefilterConditionPartition, PartitionCondition: &c}
	vpAssert(evaluatePrefilterCondition(md, cond), "C04: block whose partition ID satisfies the condition is pruned")
	q := &QueryPrefilter{Expression: &PrefilterExpression{ExpressionType: PrefilterExpressionCondition, Condition: cond}}
	out := FilterDataBlocks([]DataBlockMetadata{*md}, q)
	vpAssert(len(out) == 1, "C04: FilterDataBlocks dropped a block whose partition ID satisfies the condition")
}

// vpLeafTruth is the row-level truth of a leaf; the tree evaluators below take it as given.
type vpRowFacts struct {
	x int64  // the row's value for field "k"
	p string // the row's partition ID
}

func vpPrefilterLeaf(r vpRowFacts) (PrefilterExpression, bool) {
	switch nondetChoice(5) {
	case 0:
		// operator fixed, operand symbolic: the leaf's truth is symbolic without forking per
		// operator (each operator is covered exhaustively by H_C04_kernel_value_never_pruned)
		c := NumericCondition{Operator: OpGreaterThanEqual, Value: nondetInt64()}
		if nondetBool() {
			c = NumericCondition{Operator: OpLessThan, Value: nondetInt64()}
		}
		return MinMax("k", c), specSatisfies(vpSignedVal(r.x), c)
	case 1:
		c := StringCondition{Operator: OpEqual, Value: string([]byte{nondetU8()})}
		if nondetBool() {
			c.Operator = OpNotEqual
		}
		return Partition(c), specStringSatisfies(r.p, c)
	case 2: // CONDITION node without a condition: documented as "true"
		return PrefilterExpression{ExpressionType: PrefilterExpressionCondition}, true
	case 3: // condition whose payload is nil: true
		return PrefilterExpression{ExpressionType: PrefilterExpressionCondition, Condition: &PrefilterCondition{ConditionType: PrefilterConditionMinMax, MinMaxFieldName: "k"}}, true
	}
	// unknown node type: matches nothing
	return PrefilterExpression{ExpressionType: "BOGUS"}, false
}

func vpPrefilterTree(r vpRowFacts, depth int) (PrefilterExpression, bool) {
	if depth == 0 || nondetBool() {
		return vpPrefilterLeaf(r)
	}
	n := nondetChoice(3) // 0..2 children
	isAnd := nondetBool()
	var kids []PrefilterExpression
	truth := isAnd // AND of nothing is true, OR of nothing is false
	for i := 0; i < n; i++ {
		k, t := vpPrefilterTree(r, depth-1)
		kids = append(kids, k)
		if isAnd {
			truth = truth && t
		} else {
			truth = truth || t
		}
	}
	if isAnd {
		return PrefilterExpression{ExpressionType: PrefilterExpressionAnd, Children: kids}, truth
	}
	return PrefilterExpression{ExpressionType: PrefilterExpressionOr, Children: kids}, truth
}

// One AND/OR level over leaves. Deeper nesting is not enumerated here (a depth-2 run did not finish
// in 50 minutes): that the evaluator computes the nested monotone AND/OR combination of its leaf
// verdicts is C25's prefilter-tree harness (depth 2); with leaf soundness shown here it lifts.
//
//vp:nocross
//vp:bounds a leaf, or one AND/OR node over <= 2 leaves (both tiers: neither depth 2 nor width 3 finished in 40 minutes), leaves minmax / partition / nil / unknown; any int64 row value, 1-byte partition IDs and operands
//vp:maxpaths 400000
func H_C04_trees_inherit_no_pruning() {
	r := vpRowFacts{x: nondetInt64(), p: string([]byte{nondetU8()})}
	tree, rowTruth := vpPrefilterTree(r, 1)
	vpAssume(rowTruth)
	idx := MinMaxIndex{Min: nondetInt64(), Max: nondetInt64()}
	vpAssume(idx.Min <= r.x && r.x <= idx.Max)
	md := &DataBlockMetadata{PartitionID: r.p, MinMaxIndexes: map[string]MinMaxIndex{"k": idx}}
	vpAssert(EvaluateDataBlockMetadata(md, &QueryPrefilter{Expression: &tree}), "C04: block holding a row that satisfies the prefilter tree is pruned")
}
