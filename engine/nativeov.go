package main

// Native build support shared by counterexample replay and witness validation: writes the
// `go test -overlay` description that injects the harness files, the generated test driver and —
// for harnesses that replace /repo functions by Go stubs (//vp:override) — a rewritten copy of the
// /repo file in which the real function is renamed f__vporig and a same-signature wrapper
// dispatches to the stub while vpNativeOverride[key] is set. /repo itself is never modified.

import (
	"bytes"
	"encoding/json"
	"fmt"
	"go/ast"
	"go/parser"
	"go/printer"
	"go/token"
	"os"
	"path/filepath"
	"regexp"
	"sort"
	"strings"
)

const repoPkgPath = "github.com/danthegoodman1/bloomsearch"

var overrideKeyRe = regexp.MustCompile(`^(?:\((\*?)` + regexp.QuoteMeta(repoPkgPath) + `\.(\w+)\)|` + regexp.QuoteMeta(repoPkgPath) + `)\.(\w+)$`)

func writeNativeOverlay(scratch string, overlay map[string][]byte, targets map[string]string) (string, error) {
	files := map[string][]byte{}
	for k, v := range overlay {
		files[k] = v
	}
	// native overrides
	var keys []string
	for k := range targets {
		keys = append(keys, k)
	}
	sort.Strings(keys)
	for _, k := range keys {
		if err := applyNativeOverride(files, k, targets[k]); err != nil {
			return "", fmt.Errorf("native override %s: %v", k, err)
		}
	}
	repl := map[string]string{}
	var names []string
	for virt := range files {
		names = append(names, virt)
	}
	sort.Strings(names)
	var harnessNames []string
	for i, virt := range names {
		real := filepath.Join(scratch, fmt.Sprintf("f%d.go", i+1))
		if err := os.WriteFile(real, files[virt], 0o644); err != nil {
			return "", err
		}
		repl[virt] = real
		if strings.Contains(virt, "zz_verif_") {
			for _, l := range strings.Split(string(files[virt]), "\n") {
				if strings.HasPrefix(l, "func H_") {
					n := strings.TrimPrefix(l, "func ")
					if j := strings.Index(n, "("); j > 0 {
						harnessNames = append(harnessNames, n[:j])
					}
				}
			}
		}
	}
	var tb bytes.Buffer
	tb.WriteString("package bloomsearch\n\nimport (\n\t\"fmt\"\n\t\"os\"\n\t\"testing\"\n)\n\nvar vpHarnessTable = map[string]func(){\n")
	for _, h := range harnessNames {
		fmt.Fprintf(&tb, "\t%q: %s,\n", h, h)
	}
	tb.WriteString("}\n\nfunc TestVerifReplay(t *testing.T) {\n\th := vpHarnessTable[os.Getenv(\"VERIF_HARNESS\")]\n\tif h == nil {\n\t\tfmt.Println(\"VPREPLAY: error: unknown harness\")\n\t\treturn\n\t}\n\tfmt.Println(\"VPREPLAY:\", vpRunReplay(os.Getenv(\"VERIF_REPLAY\"), h))\n}\n")
	tb.WriteString("\nfunc TestVerifWitness(t *testing.T) {\n\tfor _, l := range vpRunWitnesses(os.Getenv(\"VERIF_WITNESS\"), vpHarnessTable) {\n\t\tfmt.Println(\"VPWITNESS:\", l)\n\t}\n}\n")
	testReal := filepath.Join(scratch, "replay_test.go")
	if err := os.WriteFile(testReal, tb.Bytes(), 0o644); err != nil {
		return "", err
	}
	repl[filepath.Join(repoDir, "zz_verif_replay_test.go")] = testReal
	oj, _ := json.Marshal(map[string]interface{}{"Replace": repl})
	ovFile := filepath.Join(scratch, "overlay.json")
	return ovFile, os.WriteFile(ovFile, oj, 0o644)
}

// applyNativeOverride rewrites the /repo file declaring `key` (in files, adding it if needed).
func applyNativeOverride(files map[string][]byte, key, stub string) error {
	m := overrideKeyRe.FindStringSubmatch(key)
	if m == nil {
		return fmt.Errorf("not a /repo function")
	}
	if stub == "" {
		return fmt.Errorf("no stub recorded")
	}
	recvPtr, recvType, name := m[1] == "*", m[2], m[3]
	cands, _ := filepath.Glob(filepath.Join(repoDir, "*.go"))
	sort.Strings(cands)
	for _, path := range cands {
		if strings.HasSuffix(path, "_test.go") {
			continue
		}
		src, ok := files[path]
		if !ok {
			b, err := os.ReadFile(path)
			if err != nil {
				continue
			}
			src = b
		}
		if !bytes.Contains(src, []byte(name+"(")) {
			continue
		}
		fset := token.NewFileSet()
		f, err := parser.ParseFile(fset, path, src, parser.ParseComments)
		if err != nil {
			return err
		}
		for _, d := range f.Decls {
			fd, ok := d.(*ast.FuncDecl)
			if !ok || fd.Name.Name != name || fd.Body == nil {
				continue
			}
			if (recvType == "") != (fd.Recv == nil) {
				continue
			}
			if fd.Recv != nil {
				t := fd.Recv.List[0].Type
				ptr := false
				if s, ok := t.(*ast.StarExpr); ok {
					ptr, t = true, s.X
				}
				id, ok := t.(*ast.Ident)
				if !ok || id.Name != recvType || ptr != recvPtr {
					continue
				}
			}
			if fd.Type.TypeParams != nil {
				return fmt.Errorf("generic function")
			}
			wrapper, err := nativeWrapper(fset, fd, key, stub)
			if err != nil {
				return err
			}
			// rename in place (byte offsets of the identifier)
			off := fset.Position(fd.Name.Pos()).Offset
			out := append([]byte{}, src[:off+len(name)]...)
			out = append(out, []byte("__vporig")...)
			out = append(out, src[off+len(name):]...)
			out = append(out, []byte("\n\n"+wrapper)...)
			files[path] = out
			return nil
		}
	}
	return fmt.Errorf("declaration not found in /repo")
}

func exprString(fset *token.FileSet, e ast.Expr) string {
	var b bytes.Buffer
	printer.Fprint(&b, fset, e)
	return b.String()
}

func nativeWrapper(fset *token.FileSet, fd *ast.FuncDecl, key, stub string) (string, error) {
	var b strings.Builder
	b.WriteString("func ")
	var callArgs []string
	recvCall := ""
	if fd.Recv != nil {
		fmt.Fprintf(&b, "(vpRecv %s) ", exprString(fset, fd.Recv.List[0].Type))
		callArgs = append(callArgs, "vpRecv")
		recvCall = "vpRecv."
	}
	b.WriteString(fd.Name.Name + "(")
	var origArgs []string
	n := 0
	for _, fl := range fd.Type.Params.List {
		cnt := len(fl.Names)
		if cnt == 0 {
			cnt = 1
		}
		for i := 0; i < cnt; i++ {
			pn := fmt.Sprintf("vpP%d", n)
			if n > 0 {
				b.WriteString(", ")
			}
			ts := exprString(fset, fl.Type)
			fmt.Fprintf(&b, "%s %s", pn, ts)
			if strings.HasPrefix(ts, "...") {
				pn += "..."
			}
			origArgs = append(origArgs, pn)
			n++
		}
	}
	b.WriteString(")")
	hasRes := fd.Type.Results != nil && len(fd.Type.Results.List) > 0
	if hasRes {
		var rs []string
		for _, fl := range fd.Type.Results.List {
			cnt := len(fl.Names)
			if cnt == 0 {
				cnt = 1
			}
			for i := 0; i < cnt; i++ {
				rs = append(rs, exprString(fset, fl.Type))
			}
		}
		b.WriteString(" (" + strings.Join(rs, ", ") + ")")
	}
	ret := ""
	if hasRes {
		ret = "return "
	}
	fmt.Fprintf(&b, " {\n\tif vpNativeOverride[%q] {\n\t\t%s%s(%s)\n\t\treturn\n\t}\n\t%s%s%s__vporig(%s)\n}\n",
		key, ret, stub, strings.Join(append(callArgs, origArgs...), ", "), ret, recvCall, fd.Name.Name, strings.Join(origArgs, ", "))
	s := b.String()
	if hasRes {
		s = strings.Replace(s, ")\n\t\treturn\n\t}", ")\n\t}", 1)
	}
	return s, nil
}
