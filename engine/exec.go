package main

import (
	"fmt"
	"go/constant"
	"go/token"
	"go/types"
	"math"
	"math/big"
	"math/rand"
	"sort"
	"strings"

	"golang.org/x/tools/go/ssa"
)

type Violation struct {
	Msg          string
	Pos          string
	Vector       []ReplayVal
	HasVec       bool
	Trace        []string
	Kind         string // ASSERT | PANIC | DEADLOCK | FORBIDDEN
	RandomSelect bool   // the failing path ran a select with several ready cases (native replay must retry)
	state        *State
}

type ReplayVal struct {
	K string `json:"k"`
	V string `json:"v"`           // decimal (unsigned bit pattern); bool 0/1
	B []int  `json:"b,omitempty"` // bytes: content
}

type Engine struct {
	ts      *TermStore
	sol     *Portfolio
	prog    *ssa.Program
	pkg     *ssa.Package
	nextObj int
	work    []*State

	pendingFalse *State
	nodeByID     map[int]*PtrV
	globals      map[*ssa.Global]*Object
	overrides    map[string]string
	tierThorough bool

	PreemptBound int
	MaxSteps     int
	MaxPaths     int
	MaxForks     int

	Paths, Asserts, Discharged, Trivial, Unknown, Blocked, Aborts, FreeForks, PathsAsserting int
	FuncsSeen                                                                                map[string]bool
	ModelsUsed                                                                               map[string]bool
	Assumptions                                                                              map[string]bool
	AssertSites                                                                              map[string]int // position -> times reached
	Violations                                                                               []*Violation
	Notes                                                                                    []string
	Samples                                                                                  []string
	Fixed                                                                                    []ReplayVal // concrete re-execution: values for the nondets, in order
	fixedMode                                                                                bool
	blockedOK                                                                                bool
	sents                                                                                    map[string]*IfaceV
	lastAlloc                                                                                *Term
	crcMemo                                                                                  map[string]*Term
	jsonMemo                                                                                 map[string]*IfaceV
	jsonSerial                                                                               int
	reMemo                                                                                   map[string]*Term

	// witness sampling (translation validation of complete paths against the native build)
	WitnessK               int
	witRng                 *rand.Rand
	Finished               int
	witStates              []*State
	witAbstract            []*State
	finNative, finAbstract int
}

func (e *Engine) note(format string, a ...interface{}) {
	if len(e.Notes) < 50 {
		e.Notes = append(e.Notes, fmt.Sprintf(format, a...))
	}
}

func (e *Engine) check(pc []*Term, extra *Term) string {
	q := append(append(make([]*Term, 0, len(pc)+1), pc...), extra)
	return e.sol.Check(q)
}

func (e *Engine) pos(p token.Pos) string {
	ps := e.prog.Fset.Position(p)
	f := ps.Filename
	if i := strings.LastIndex(f, "/"); i >= 0 {
		f = f[i+1:]
	}
	return fmt.Sprintf("%s:%d", f, ps.Line)
}

// ---------- constants ----------

func (e *Engine) constVal(c *ssa.Const) Value {
	t := c.Type()
	if c.Value == nil {
		return e.zero(t)
	}
	if w, _, ok := intWidth(t); ok {
		bi, _ := new(big.Int).SetString(constant.ToInt(c.Value).ExactString(), 10)
		return e.ts.BVConst(w, bi)
	}
	if s, ok := isFloat(t); ok {
		f, _ := constant.Float64Val(constant.ToFloat(c.Value))
		if s == F32 {
			return e.ts.FPConstBits(F32, uint64(math.Float32bits(float32(f))))
		}
		return e.ts.FPConstBits(F64, math.Float64bits(f))
	}
	if isBool(t) {
		return e.ts.Bool(constant.BoolVal(c.Value))
	}
	if isString(t) {
		return e.strConst(constant.StringVal(c.Value))
	}
	e.abort("const: unsupported %s", c)
	return nil
}

func (e *Engine) strConst(s string) *StrV {
	v := &StrV{B: make([]*Term, len(s))}
	for i := 0; i < len(s); i++ {
		v.B[i] = e.ts.BVInt(8, int64(s[i]))
	}
	return v
}

func (e *Engine) strEq(a, b *StrV) *Term {
	if a.Doc != nil || b.Doc != nil {
		if a.Doc != nil && b.Doc != nil && a.Doc.Obj == b.Doc.Obj {
			return e.ts.Bool(true)
		}
		e.abort("comparison of opaque JSON text")
	}
	if len(a.B) != len(b.B) {
		return e.ts.Bool(false)
	}
	cs := []*Term{}
	for i := range a.B {
		cs = append(cs, e.ts.Eq(a.B[i], b.B[i]))
	}
	if len(cs) == 0 {
		return e.ts.Bool(true)
	}
	return e.ts.And(cs...)
}

// strLess builds a < b (lexicographic, unsigned bytes) for concrete-length strings.
func (e *Engine) strLess(a, b *StrV) *Term {
	ts := e.ts
	n := len(a.B)
	if len(b.B) < n {
		n = len(b.B)
	}
	// result for equal common prefix: len(a) < len(b)
	res := ts.Bool(len(a.B) < len(b.B))
	for i := n - 1; i >= 0; i-- {
		lt := ts.App(BoolSort, "bvult", a.B[i], b.B[i])
		eq := ts.Eq(a.B[i], b.B[i])
		res = ts.Or(lt, ts.And(eq, res))
	}
	return res
}

func strConcrete(s *StrV) (string, bool) {
	if s.Doc != nil {
		return "", false
	}
	b := make([]byte, len(s.B))
	for i, t := range s.B {
		if !t.IsConst() {
			return "", false
		}
		b[i] = byte(t.cv.Uint64())
	}
	return string(b), true
}

func bigInt(v int64) *big.Int { return big.NewInt(v) }

func concreteInt(t *Term) (int, bool) {
	if t.IsConst() {
		s := signed(t.sort.W, t.cv)
		if s.IsInt64() {
			return int(s.Int64()), true
		}
	}
	return 0, false
}

func (e *Engine) ext64(t *Term, sg bool) *Term {
	if t.sort.W == 64 {
		return t
	}
	if sg {
		return e.ts.SignExt(64, t)
	}
	return e.ts.ZeroExt(64, t)
}

// concretize returns a concrete value for t on this path; when several values are feasible the
// path forks by re-execution of the current instruction (the clone excludes the chosen value).
func (e *Engine) concretize(st *State, t *Term, what string) int {
	if t.sort.W != 64 {
		t = e.ts.SignExt(64, t)
	}
	if v, ok := concreteInt(t); ok {
		return v
	}
	vals, ok := e.sol.Model(st.pc, []*Term{t})
	if !ok {
		e.Unknown++
		e.abort("INCONCLUSIVE: cannot concretize %s", what)
	}
	c := e.ts.BVConst(64, vals[0])
	eq := e.ts.Eq(t, c)
	if e.check(st.pc, e.ts.Not(eq)) != "unsat" {
		st.forks++
		if st.forks > e.MaxForks {
			e.abort("UNWINDING: too many concretisation forks (%s)", what)
		}
		cl := st.clone()
		e.rewind(cl)
		cl.addPC(e.ts.Not(eq))
		e.work = append(e.work, cl)
		st.addPC(eq)
	}
	v, _ := concreteInt(c)
	return v
}

// rewind prepares a clone taken in the middle of an instruction for re-executing it.
func (e *Engine) rewind(cl *State) {
	cl.nondets = cl.nondets[:cl.mark]
	if cl.fr.native == nil {
		cl.fr.ip--
	}
}

// decide returns the truth value of c on this path, forking by re-execution when both are
// feasible. Must be called before the current instruction has mutated the state.
func (e *Engine) decide(st *State, c *Term) bool {
	if c.IsConst() {
		return c.boolVal()
	}
	rt := e.check(st.pc, c)
	if rt == "unsat" {
		return false
	}
	if rt != "sat" {
		e.Unknown++
		e.abort("INCONCLUSIVE: solver %s on decision", rt)
	}
	rf := e.check(st.pc, e.ts.Not(c))
	if rf == "unsat" {
		return true
	}
	if rf != "sat" {
		e.Unknown++
		e.abort("INCONCLUSIVE: solver %s on decision", rf)
	}
	st.forks++
	if st.forks > e.MaxForks {
		e.abort("UNWINDING: too many decision forks")
	}
	cl := st.clone()
	e.rewind(cl)
	cl.addPC(e.ts.Not(c))
	e.work = append(e.work, cl)
	st.addPC(c)
	return true
}

func (e *Engine) mustInt(st *State, v Value, what string) int {
	return e.concretize(st, v.(*Term), what)
}

// sliceElems returns the element values of a slice over a concrete array.
func (e *Engine) sliceElems(st *State, s *SliceV) []Value {
	if s.Obj == nil {
		return nil
	}
	arr, ok := st.heap[s.Obj.ID].(*ArrayV)
	if !ok {
		e.abort("sliceElems on %T", st.heap[s.Obj.ID])
	}
	off, ln := e.mustInt(st, s.Off, "slice offset"), e.mustInt(st, s.Len, "slice length")
	if off < 0 || ln < 0 || off+ln > len(arr.E) {
		e.abort("sliceElems: internal bounds %d+%d > %d", off, ln, len(arr.E))
	}
	return arr.E[off : off+ln]
}

func (e *Engine) mkSlice(st *State, elems []Value) *SliceV {
	arr := &ArrayV{E: append([]Value(nil), elems...)}
	o := e.newObj(st, nil, arr)
	n := e.ts.BVInt(64, int64(len(elems)))
	return &SliceV{Obj: o, Off: e.ts.BVInt(64, 0), Len: n, Cap: n}
}

// ---------- evaluation ----------

func (e *Engine) get(st *State, v ssa.Value) Value {
	switch x := v.(type) {
	case *ssa.Const:
		return e.constVal(x)
	case *ssa.Function:
		return &FuncV{Fn: x}
	case *ssa.Global:
		o := e.globals[x]
		if o == nil {
			e.nextObj++
			o = &Object{ID: e.nextObj}
			e.globals[x] = o
		}
		if _, ok := st.heap[o.ID]; !ok {
			elem := x.Type().Underlying().(*types.Pointer).Elem()
			var init Value
			if x.Pkg != e.pkg && isErrorType(elem) {
				// foreign sentinel error (io.EOF, context.Canceled, ...): an opaque distinct value
				init = e.sentinel(x.Pkg.Pkg.Path() + "." + x.Name())
			} else {
				init = e.zero(elem)
			}
			st.heap[o.ID] = init
		}
		return &PtrV{Obj: o}
	}
	val, ok := st.fr.env[v]
	if !ok {
		e.abort("unbound ssa value %s in %s", v.Name(), st.fr.fn)
	}
	return val
}

func (e *Engine) sentinel(name string) *IfaceV {
	if s, ok := e.sentinelsMap()[name]; ok {
		return s
	}
	s := &IfaceV{T: errT, V: &ErrV{Msg: name}}
	e.sentinelsMap()[name] = s
	return s
}

func (e *Engine) sentinelsMap() map[string]*IfaceV {
	if e.sents == nil {
		e.sents = map[string]*IfaceV{}
	}
	return e.sents
}

// branch forks on a symbolic condition; returns the value to follow on this state.
func (e *Engine) branch(st *State, c *Term) bool {
	if c.IsConst() {
		return c.boolVal()
	}
	if !st.freeChoice(c) {
		rt := e.check(st.pc, c)
		if rt == "unsat" {
			return false
		}
		if rt != "sat" {
			e.Unknown++
			e.abort("INCONCLUSIVE: solver %s on branch", rt)
		}
		rf := e.check(st.pc, e.ts.Not(c))
		if rf == "unsat" {
			return true
		}
		if rf != "sat" {
			e.Unknown++
			e.abort("INCONCLUSIVE: solver %s on branch", rf)
		}
	} else {
		e.FreeForks++
	}
	other := st.clone()
	other.addPC(e.ts.Not(c))
	e.pendingFalse = other
	st.addPC(c)
	return true
}

func (e *Engine) valEq(st *State, x, y Value) *Term {
	ts := e.ts
	switch a := x.(type) {
	case *Term:
		b := y.(*Term)
		if a.sort.K == SFP {
			return ts.App(BoolSort, "fp.eq", a, b)
		}
		return ts.Eq(a, b)
	case *StrV:
		return e.strEq(a, y.(*StrV))
	case *PtrV:
		b, ok := y.(*PtrV)
		if !ok {
			return ts.Bool(false)
		}
		return ts.Bool(a.Obj == b.Obj && samePath(a.Path, b.Path))
	case *IfaceV:
		b := y.(*IfaceV)
		if a.T == nil || b.T == nil {
			return ts.Bool(a.T == nil && b.T == nil)
		}
		if !types.Identical(a.T, b.T) {
			return ts.Bool(false)
		}
		return e.valEq(st, a.V, b.V)
	case *ErrV:
		b, ok := y.(*ErrV)
		return ts.Bool(ok && a == b)
	case *OpaqueV:
		b, ok := y.(*OpaqueV)
		return ts.Bool(ok && a == b)
	case *MapRef:
		return ts.Bool(a.Obj == y.(*MapRef).Obj)
	case *ChanRef:
		return ts.Bool(a.Obj == y.(*ChanRef).Obj)
	case *FuncV:
		b := y.(*FuncV)
		if a == nil || b == nil {
			return ts.Bool(a == nil && b == nil)
		}
		e.abort("comparison of non-nil funcs")
	case *SliceV:
		b := y.(*SliceV)
		if a.Obj == nil || b.Obj == nil {
			return ts.Bool(a.Obj == nil && b.Obj == nil)
		}
		e.abort("comparison of non-nil slices")
	case *StructV:
		b := y.(*StructV)
		cs := []*Term{}
		for i := range a.F {
			cs = append(cs, e.valEq(st, a.F[i], b.F[i]))
		}
		return ts.And(cs...)
	case *ArrayV:
		b := y.(*ArrayV)
		cs := []*Term{}
		for i := range a.E {
			cs = append(cs, e.valEq(st, a.E[i], b.E[i]))
		}
		return ts.And(cs...)
	case nil:
		return ts.Bool(y == nil)
	}
	e.abort("valEq on %T", x)
	return nil
}

func (e *Engine) binop(st *State, op token.Token, xt types.Type, x, y Value, ins *ssa.BinOp) Value {
	ts := e.ts
	switch a := x.(type) {
	case *Term:
		b := y.(*Term)
		if a.sort.K == SBool {
			switch op {
			case token.EQL:
				return ts.Eq(a, b)
			case token.NEQ:
				return ts.Not(ts.Eq(a, b))
			case token.LAND, token.AND:
				return ts.And(a, b)
			case token.LOR, token.OR:
				return ts.Or(a, b)
			}
		}
		if a.sort.K == SFP {
			switch op {
			case token.LSS:
				return ts.App(BoolSort, "fp.lt", a, b)
			case token.LEQ:
				return ts.App(BoolSort, "fp.leq", a, b)
			case token.GTR:
				// float64(d)/c > 0 with d a 64-bit integer and c a positive constant <= 2^62 is d > 0
				// (|float64(d)| >= 1 for d != 0, so the quotient cannot round to zero): keeps
				// `duration.Seconds() > 0` out of the FloatingPoint solver.
				if a.op == "fp.div RNE" && len(a.args) == 2 && a.args[0].op == "(_ to_fp 11 53) RNE" && len(a.args[0].args) == 1 &&
					a.args[0].args[0].sort.K == SBV && a.args[0].args[0].sort.W == 64 && a.args[1].IsConst() && b.IsConst() && b.cv.Sign() == 0 {
					if c := math.Float64frombits(a.args[1].cv.Uint64()); c >= 1 && c <= 1<<62 {
						return ts.App(BoolSort, "bvsgt", a.args[0].args[0], ts.BVInt(64, 0))
					}
				}
				return ts.App(BoolSort, "fp.gt", a, b)
			case token.GEQ:
				return ts.App(BoolSort, "fp.geq", a, b)
			case token.EQL:
				return ts.App(BoolSort, "fp.eq", a, b)
			case token.NEQ:
				return ts.Not(ts.App(BoolSort, "fp.eq", a, b))
			case token.ADD:
				return ts.App(a.sort, "fp.add RNE", a, b)
			case token.SUB:
				return ts.App(a.sort, "fp.sub RNE", a, b)
			case token.MUL:
				return ts.App(a.sort, "fp.mul RNE", a, b)
			case token.QUO:
				return ts.App(a.sort, "fp.div RNE", a, b)
			}
			e.abort("float binop %s unsupported", op)
		}
		_, sg, _ := intWidth(xt)
		if op == token.SHL || op == token.SHR {
			if b.sort.W < a.sort.W {
				b = ts.ZeroExt(a.sort.W, b)
			} else if b.sort.W > a.sort.W {
				hi := ts.Extract(b.sort.W-1, a.sort.W, b)
				lo := ts.Extract(a.sort.W-1, 0, b)
				big := ts.Not(ts.Eq(hi, ts.BVInt(hi.sort.W, 0)))
				b = ts.Ite(big, ts.BVInt(a.sort.W, int64(a.sort.W)), lo)
			}
		}
		s := func(su, ss string) string {
			if sg {
				return ss
			}
			return su
		}
		switch op {
		case token.ADD:
			return ts.App(a.sort, "bvadd", a, b)
		case token.SUB:
			return ts.App(a.sort, "bvsub", a, b)
		case token.MUL:
			return ts.App(a.sort, "bvmul", a, b)
		case token.QUO, token.REM:
			if !e.require(st, ts.Not(ts.Eq(b, ts.BVInt(b.sort.W, 0))), "PANIC", "integer divide by zero at "+e.pos(ins.Pos())) {
				return nil
			}
			if op == token.QUO {
				return ts.App(a.sort, s("bvudiv", "bvsdiv"), a, b)
			}
			return ts.App(a.sort, s("bvurem", "bvsrem"), a, b)
		case token.AND:
			return ts.App(a.sort, "bvand", a, b)
		case token.OR:
			return ts.App(a.sort, "bvor", a, b)
		case token.XOR:
			return ts.App(a.sort, "bvxor", a, b)
		case token.AND_NOT:
			return ts.App(a.sort, "bvand", a, ts.App(a.sort, "bvnot", b))
		case token.SHL:
			return ts.App(a.sort, "bvshl", a, b)
		case token.SHR:
			return ts.App(a.sort, s("bvlshr", "bvashr"), a, b)
		case token.EQL:
			return ts.Eq(a, b)
		case token.NEQ:
			return ts.Not(ts.Eq(a, b))
		case token.LSS:
			return ts.App(BoolSort, s("bvult", "bvslt"), a, b)
		case token.LEQ:
			return ts.App(BoolSort, s("bvule", "bvsle"), a, b)
		case token.GTR:
			return ts.App(BoolSort, s("bvugt", "bvsgt"), a, b)
		case token.GEQ:
			return ts.App(BoolSort, s("bvuge", "bvsge"), a, b)
		}
	case *StrV:
		b := y.(*StrV)
		switch op {
		case token.EQL:
			return e.strEq(a, b)
		case token.NEQ:
			return ts.Not(e.strEq(a, b))
		case token.ADD:
			if a.Doc != nil || b.Doc != nil {
				e.abort("concatenation of opaque JSON text")
			}
			return &StrV{B: append(append([]*Term(nil), a.B...), b.B...)}
		case token.LSS:
			return e.strLess(a, b)
		case token.GTR:
			return e.strLess(b, a)
		case token.LEQ:
			return ts.Not(e.strLess(b, a))
		case token.GEQ:
			return ts.Not(e.strLess(a, b))
		}
	default:
		switch op {
		case token.EQL:
			return e.valEq(st, x, y)
		case token.NEQ:
			return ts.Not(e.valEq(st, x, y))
		}
	}
	e.abort("binop %s on %T unsupported (%s)", op, x, ins)
	return nil
}

func (e *Engine) convert(st *State, from, to types.Type, v Value) Value {
	ts := e.ts
	if fw, fs, ok := intWidth(from); ok {
		t := v.(*Term)
		if tw, _, ok2 := intWidth(to); ok2 {
			if tw < fw {
				return ts.Extract(tw-1, 0, t)
			}
			if fs {
				return ts.SignExt(tw, t)
			}
			return ts.ZeroExt(tw, t)
		}
		if s, ok2 := isFloat(to); ok2 {
			op := fmt.Sprintf("(_ to_fp %d %d) RNE", s.EB, s.SB)
			if !fs {
				op = fmt.Sprintf("(_ to_fp_unsigned %d %d) RNE", s.EB, s.SB)
			}
			return ts.App(s, op, t)
		}
		if isString(to) { // string(rune)
			c := e.concretize(st, t, "rune to string")
			return e.strConst(string(rune(c)))
		}
	}
	if fsort, ok := isFloat(from); ok {
		t := v.(*Term)
		if s, ok2 := isFloat(to); ok2 {
			if s == fsort {
				return t
			}
			return ts.App(s, fmt.Sprintf("(_ to_fp %d %d) RNE", s.EB, s.SB), t)
		}
		if tw, tsg, ok2 := intWidth(to); ok2 && tw == 64 && tsg {
			t64 := t
			if fsort != F64 {
				t64 = ts.App(F64, "(_ to_fp 11 53) RNE", t)
			}
			// in range: -2^63 <= x < 2^63 ; otherwise implementation-defined => fresh value
			two63 := ts.FPConstBits(F64, math.Float64bits(9223372036854775808.0))
			ntwo63 := ts.FPConstBits(F64, math.Float64bits(-9223372036854775808.0))
			inr := ts.And(ts.App(BoolSort, "fp.lt", t64, two63), ts.App(BoolSort, "fp.geq", t64, ntwo63))
			conv := ts.App(BV(64), "(_ fp.to_sbv 64) RTZ", t64)
			fresh := ts.Var("f2i_undef", BV(64))
			return ts.Ite(inr, conv, fresh)
		}
	}
	if isString(from) && isString(to) {
		return v
	}
	if sl, ok := v.(*SliceV); ok && isString(to) { // string([]byte): copy
		if sl.Obj == nil {
			return &StrV{}
		}
		switch hv := st.heap[sl.Obj.ID].(type) {
		case *DocBytesV:
			return &StrV{Doc: hv.Node, Len: hv.Len}
		case *ArrayV:
			out := &StrV{}
			for _, b := range e.sliceElems(st, sl) {
				out.B = append(out.B, b.(*Term))
			}
			return out
		case *SymBytesV:
			n := e.concretize(st, sl.Len, "string([]byte) length")
			out := &StrV{}
			for i := 0; i < n; i++ {
				idx := ts.App(BV(64), "bvadd", sl.Off, ts.BVInt(64, int64(i)))
				out.B = append(out.B, e.symSelect(hv, idx))
			}
			return out
		}
	}
	if sv, ok := v.(*StrV); ok {
		if _, isSl := to.Underlying().(*types.Slice); isSl { // []byte(string): copy
			if sv.Doc != nil {
				o := e.newObj(st, nil, &DocBytesV{Node: sv.Doc, Len: sv.Len})
				return &SliceV{Obj: o, Off: ts.BVInt(64, 0), Len: sv.Len, Cap: sv.Len}
			}
			elems := make([]Value, len(sv.B))
			for i, b := range sv.B {
				elems[i] = b
			}
			return e.mkSlice(st, elems)
		}
	}
	if _, ok := from.Underlying().(*types.Pointer); ok { // unsafe.Pointer conversions
		return v
	}
	if b, ok := from.Underlying().(*types.Basic); ok && b.Kind() == types.UnsafePointer {
		return v
	}
	e.abort("convert %s -> %s unsupported", from, to)
	return nil
}

// require asserts a run-time check: a violation is recorded if cond can be false;
// the path continues under cond. Returns false if the path cannot continue.
func (e *Engine) require(st *State, cond *Term, kind, msg string) bool {
	if cond.IsConst() {
		if !cond.boolVal() {
			e.violation(st, kind, msg)
			return false
		}
		return true
	}
	e.Asserts++
	switch r := e.check(st.pc, e.ts.Not(cond)); r {
	case "unsat":
		e.Discharged++
		e.sample(st, kind+" check: "+msg)
		return true
	case "sat":
		neg := st.clone()
		neg.addPC(e.ts.Not(cond))
		e.violation(neg, kind, msg)
	default:
		e.Unknown++
		e.note("UNKNOWN on run-time check %s: %s", msg, r)
	}
	if e.check(st.pc, cond) != "sat" {
		return false
	}
	st.addPC(cond)
	return true
}

func (e *Engine) sample(st *State, what string) {
	if len(e.Samples) < 6 {
		e.Samples = append(e.Samples, fmt.Sprintf("%s [path-condition conjuncts=%d, nondets=%d] -> unsat (holds)", what, len(st.pc), len(st.nondets)))
	}
}

func (e *Engine) takePending() *State {
	p := e.pendingFalse
	e.pendingFalse = nil
	return p
}

// step executes one instruction; returns false when the path has ended.
func (e *Engine) step(st *State) bool {
	fr := st.fr
	if fr.native != nil {
		return e.stepNative(st)
	}
	ins := fr.block.Instrs[fr.ip]
	st.mark = len(st.nondets)
	if st.preemptLeft > 0 && isSyncInstr(ins) {
		live := 0
		for _, t := range st.threads {
			if !t.done {
				live++
			}
		}
		if live > 1 {
			// a forced switch may hand the processor to any other live thread
			for ti, t := range st.threads {
				if ti == st.cur || t.done {
					continue
				}
				c := st.clone()
				c.preemptLeft--
				c.switchNow = true
				c.switchTo = ti + 1
				e.work = append(e.work, c)
			}
		}
	}
	fr.ip++
	st.steps++
	if st.steps > e.MaxSteps {
		e.abort("UNWINDING: step budget exceeded")
	}
	ts := e.ts
	set := func(v ssa.Value, val Value) { fr.env[v] = val }

	switch x := ins.(type) {
	case *ssa.Alloc:
		elem := x.Type().Underlying().(*types.Pointer).Elem()
		o := e.newObj(st, elem, e.zero(elem))
		set(x, &PtrV{Obj: o})
	case *ssa.Store:
		switch p := e.get(st, x.Addr).(type) {
		case *SymElemPtr:
			sb := st.heap[p.Obj.ID].(*SymBytesV)
			st.heap[p.Obj.ID] = e.symStore(sb, p.Idx, e.get(st, x.Val).(*Term))
		case *PtrV:
			if p.Obj == nil {
				e.violation(st, "PANIC", "nil pointer dereference (store) at "+e.pos(x.Pos()))
				return false
			}
			e.store(st, p, e.get(st, x.Val))
		default:
			e.abort("store through %T", p)
		}
	case *ssa.UnOp:
		v := e.get(st, x.X)
		switch x.Op {
		case token.MUL:
			switch p := v.(type) {
			case *SymElemPtr:
				sb := st.heap[p.Obj.ID].(*SymBytesV)
				set(x, e.symSelect(sb, p.Idx))
			case *PtrV:
				if p.Obj == nil {
					e.violation(st, "PANIC", "nil pointer dereference at "+e.pos(x.Pos()))
					return false
				}
				set(x, e.load(st, p))
			default:
				e.abort("load through %T", v)
			}
		case token.ARROW:
			cr := v.(*ChanRef)
			elemT := x.X.Type().Underlying().(*types.Chan).Elem()
			return e.selectOp(st, nil, x, []selCase{{ch: cr, elemT: elemT}}, true)
		case token.NOT:
			set(x, ts.Not(v.(*Term)))
		case token.SUB:
			t := v.(*Term)
			if t.sort.K == SFP {
				set(x, ts.App(t.sort, "fp.neg", t))
			} else {
				set(x, ts.App(t.sort, "bvneg", t))
			}
		case token.XOR:
			t := v.(*Term)
			set(x, ts.App(t.sort, "bvnot", t))
		default:
			e.abort("unop %s unsupported", x.Op)
		}
	case *ssa.BinOp:
		r := e.binop(st, x.Op, x.X.Type(), e.get(st, x.X), e.get(st, x.Y), x)
		if r == nil {
			return false
		}
		set(x, r)
	case *ssa.FieldAddr:
		p := e.get(st, x.X).(*PtrV)
		if p.Obj == nil {
			e.violation(st, "PANIC", "nil pointer dereference (field) at "+e.pos(x.Pos()))
			return false
		}
		set(x, &PtrV{Obj: p.Obj, Path: append(append([]int(nil), p.Path...), x.Field)})
	case *ssa.Field:
		set(x, e.get(st, x.X).(*StructV).F[x.Field])
	case *ssa.IndexAddr:
		base := e.get(st, x.X)
		_, isg, _ := intWidth(x.Index.Type())
		idx := e.ext64(e.get(st, x.Index).(*Term), isg)
		switch b := base.(type) {
		case *SliceV:
			if b.Obj == nil {
				e.violation(st, "PANIC", "index out of range (nil slice) at "+e.pos(x.Pos()))
				return false
			}
			inb := ts.App(BoolSort, "bvult", idx, b.Len)
			if !e.require(st, inb, "PANIC", "index out of range at "+e.pos(x.Pos())) {
				return false
			}
			abs := ts.App(BV(64), "bvadd", b.Off, idx)
			if _, sym := st.heap[b.Obj.ID].(*SymBytesV); sym {
				set(x, &SymElemPtr{Obj: b.Obj, Idx: abs})
			} else {
				i := e.concretize(st, abs, "index into concrete array")
				set(x, &PtrV{Obj: b.Obj, Path: []int{i}})
			}
		case *PtrV: // pointer to array
			if b.Obj == nil {
				e.violation(st, "PANIC", "nil array pointer at "+e.pos(x.Pos()))
				return false
			}
			arr, ok := e.load(st, b).(*ArrayV)
			if !ok {
				e.abort("indexaddr into %T", e.load(st, b))
			}
			inb := ts.App(BoolSort, "bvult", idx, ts.BVInt(64, int64(len(arr.E))))
			if !e.require(st, inb, "PANIC", "array index out of range at "+e.pos(x.Pos())) {
				return false
			}
			i := e.concretize(st, idx, "array index")
			set(x, &PtrV{Obj: b.Obj, Path: append(append([]int(nil), b.Path...), i)})
		default:
			e.abort("indexaddr on %T", base)
		}
	case *ssa.Phi:
		for i, pred := range fr.block.Preds {
			if pred == fr.prev {
				set(x, e.get(st, x.Edges[i]))
				break
			}
		}
	case *ssa.Jump:
		fr.prev, fr.block, fr.ip = fr.block, fr.block.Succs[0], 0
		e.runPhis(st)
	case *ssa.If:
		c := e.get(st, x.Cond).(*Term)
		var tgt *ssa.BasicBlock
		if e.branch(st, c) {
			tgt = fr.block.Succs[0]
		} else {
			tgt = fr.block.Succs[1]
		}
		if p := e.pendingFalse; p != nil {
			pf := p.fr
			pf.prev, pf.block, pf.ip = pf.block, pf.block.Succs[1], 0
			e.runPhis(p)
		}
		fr.prev, fr.block, fr.ip = fr.block, tgt, 0
		e.runPhis(st)
	case *ssa.Return:
		var res Value
		switch len(x.Results) {
		case 0:
		case 1:
			res = e.get(st, x.Results[0])
		default:
			t := TupleV{}
			for _, r := range x.Results {
				t = append(t, e.get(st, r))
			}
			res = t
		}
		return e.doReturn(st, res)
	case *ssa.Call:
		return e.call(st, x)
	case *ssa.Extract:
		set(x, e.get(st, x.Tuple).(TupleV)[x.Index])
	case *ssa.MakeInterface:
		set(x, &IfaceV{T: x.X.Type(), V: e.get(st, x.X)})
	case *ssa.ChangeType:
		set(x, e.get(st, x.X))
	case *ssa.ChangeInterface:
		set(x, e.get(st, x.X))
	case *ssa.Convert:
		set(x, e.convert(st, x.X.Type(), x.Type(), e.get(st, x.X)))
	case *ssa.SliceToArrayPointer:
		e.abort("SliceToArrayPointer unsupported")
	case *ssa.TypeAssert:
		iv := e.get(st, x.X).(*IfaceV)
		var ok bool
		if iv.T != nil {
			if it, isIface := x.AssertedType.Underlying().(*types.Interface); isIface {
				ok = types.Implements(iv.T, it)
			} else {
				ok = types.Identical(iv.T, x.AssertedType)
			}
		}
		var val Value
		if ok {
			if _, isIface := x.AssertedType.Underlying().(*types.Interface); isIface {
				val = iv
			} else {
				val = iv.V
			}
		} else {
			val = e.zero(x.AssertedType)
		}
		if x.CommaOk {
			set(x, TupleV{val, ts.Bool(ok)})
		} else {
			if !ok {
				e.violation(st, "PANIC", "failed type assertion at "+e.pos(x.Pos()))
				return false
			}
			set(x, val)
		}
	case *ssa.Slice:
		return e.slice(st, x)
	case *ssa.MakeClosure:
		fv := &FuncV{Fn: x.Fn.(*ssa.Function)}
		for _, b := range x.Bindings {
			fv.Bind = append(fv.Bind, e.get(st, b))
		}
		set(x, fv)
	case *ssa.MakeSlice:
		lt, ct := e.get(st, x.Len).(*Term), e.get(st, x.Cap).(*Term)
		_, lsg, _ := intWidth(x.Len.Type())
		lt, ct = e.ext64(lt, lsg), e.ext64(ct, lsg)
		elemT := x.Type().Underlying().(*types.Slice).Elem()
		// run-time check: 0 <= len <= cap (and not absurdly large: 2^47 elements panics in Go)
		okc := ts.And(ts.App(BoolSort, "bvsge", lt, ts.BVInt(64, 0)), ts.App(BoolSort, "bvsle", lt, ct),
			ts.App(BoolSort, "bvslt", ct, ts.BVConst(64, new(big.Int).Lsh(big.NewInt(1), 47))))
		if !e.require(st, okc, "PANIC", "makeslice: len out of range at "+e.pos(x.Pos())) {
			return false
		}
		if w, _, isInt := intWidth(elemT); isInt && w == 8 && (!lt.IsConst() || !ct.IsConst()) {
			// symbolic-size byte buffer: zero-filled symbolic array
			e.Alloc(st, ct, e.pos(x.Pos()))
			arr := ts.App(ArrSort, "(as const (Array (_ BitVec 64) (_ BitVec 8)))", ts.BVInt(8, 0))
			o := e.newObj(st, nil, &SymBytesV{Arr: arr, Len: ct})
			set(x, &SliceV{Obj: o, Off: ts.BVInt(64, 0), Len: lt, Cap: ct})
			break
		}
		ln, cp := e.mustInt(st, lt, "make len"), e.mustInt(st, ct, "make cap")
		if cp > 1<<16 {
			e.abort("make: concrete capacity %d too large for the encoding", cp)
		}
		arr := &ArrayV{E: make([]Value, cp)}
		for i := range arr.E {
			arr.E[i] = e.zero(elemT)
		}
		o := e.newObj(st, nil, arr)
		set(x, &SliceV{Obj: o, Off: ts.BVInt(64, 0), Len: ts.BVInt(64, int64(ln)), Cap: ts.BVInt(64, int64(cp))})
	case *ssa.Index:
		_, isg, _ := intWidth(x.Index.Type())
		idx := e.ext64(e.get(st, x.Index).(*Term), isg)
		switch b := e.get(st, x.X).(type) {
		case *StrV:
			if !e.require(st, ts.App(BoolSort, "bvult", idx, ts.BVInt(64, int64(len(b.B)))), "PANIC", "string index out of range at "+e.pos(x.Pos())) {
				return false
			}
			i := e.concretize(st, idx, "string index")
			set(x, b.B[i])
		case *ArrayV:
			if !e.require(st, ts.App(BoolSort, "bvult", idx, ts.BVInt(64, int64(len(b.E)))), "PANIC", "array index out of range at "+e.pos(x.Pos())) {
				return false
			}
			i := e.concretize(st, idx, "array index")
			set(x, b.E[i])
		default:
			e.abort("index on %T", b)
		}
	case *ssa.Lookup:
		switch b := e.get(st, x.X).(type) {
		case *StrV:
			_, isg, _ := intWidth(x.Index.Type())
			idx := e.ext64(e.get(st, x.Index).(*Term), isg)
			if !e.require(st, ts.App(BoolSort, "bvult", idx, ts.BVInt(64, int64(len(b.B)))), "PANIC", "string index out of range at "+e.pos(x.Pos())) {
				return false
			}
			i := e.concretize(st, idx, "string index")
			set(x, b.B[i])
		case *MapRef:
			k := e.get(st, x.Index)
			var found Value
			okT := ts.Bool(false)
			if b.Obj != nil {
				mv := st.heap[b.Obj.ID].(*MapV)
				for i, ek := range mv.Keys {
					if e.decide(st, e.valEq(st, ek, k)) {
						found, okT = mv.Vals[i], ts.Bool(true)
						break
					}
				}
			}
			vt := x.X.Type().Underlying().(*types.Map).Elem()
			if found == nil {
				found = e.zeroOrNil(vt)
			}
			if x.CommaOk {
				set(x, TupleV{found, okT})
			} else {
				set(x, found)
			}
		default:
			e.abort("lookup on %T", b)
		}
	case *ssa.MakeMap:
		o := e.newObj(st, nil, &MapV{})
		set(x, &MapRef{Obj: o})
	case *ssa.MapUpdate:
		mr := e.get(st, x.Map).(*MapRef)
		if mr.Obj == nil {
			e.violation(st, "PANIC", "assignment to entry in nil map at "+e.pos(x.Pos()))
			return false
		}
		mv := st.heap[mr.Obj.ID].(*MapV)
		k := e.get(st, x.Key)
		hit := -1
		for i, ek := range mv.Keys {
			if e.decide(st, e.valEq(st, ek, k)) {
				hit = i
				break
			}
		}
		nm := &MapV{Keys: append([]Value(nil), mv.Keys...), Vals: append([]Value(nil), mv.Vals...)}
		if hit >= 0 {
			nm.Vals[hit] = e.get(st, x.Value)
		} else {
			nm.Keys = append(nm.Keys, k)
			nm.Vals = append(nm.Vals, e.get(st, x.Value))
		}
		st.heap[mr.Obj.ID] = nm
	case *ssa.Range:
		switch rv := e.get(st, x.X).(type) {
		case *MapRef:
			it := &MapIter{}
			if rv.Obj != nil {
				mv := st.heap[rv.Obj.ID].(*MapV)
				it.Keys, it.Vals = mv.Keys, mv.Vals
			}
			o := e.newObj(st, nil, it)
			set(x, &PtrV{Obj: o})
		case *StrV:
			o := e.newObj(st, nil, &MapIter{Str: rv})
			set(x, &PtrV{Obj: o})
		default:
			e.abort("range over %T unsupported", rv)
		}
	case *ssa.Next:
		p := e.get(st, x.Iter).(*PtrV)
		it := st.heap[p.Obj.ID].(*MapIter)
		tt := x.Type().(*types.Tuple)
		if it.Str != nil {
			if it.Pos >= len(it.Str.B) {
				set(x, TupleV{ts.Bool(false), ts.BVInt(64, 0), ts.BVInt(32, 0)})
			} else {
				b := it.Str.B[it.Pos]
				// bound: ASCII only (multi-byte UTF-8 decoding is outside the encoding)
				ascii := ts.App(BoolSort, "bvult", b, ts.BVInt(8, 0x80))
				if !e.assume(st, ascii) {
					return false
				}
				e.Assumptions["strings ranged over by rune are ASCII"] = true
				set(x, TupleV{ts.Bool(true), ts.BVInt(64, int64(it.Pos)), ts.ZeroExt(32, b)})
				st.heap[p.Obj.ID] = &MapIter{Str: it.Str, Pos: it.Pos + 1}
			}
			break
		}
		if it.Pos >= len(it.Keys) {
			set(x, TupleV{ts.Bool(false), e.zeroOrNil(tt.At(1).Type()), e.zeroOrNil(tt.At(2).Type())})
		} else {
			set(x, TupleV{ts.Bool(true), it.Keys[it.Pos], it.Vals[it.Pos]})
			st.heap[p.Obj.ID] = &MapIter{Keys: it.Keys, Vals: it.Vals, Pos: it.Pos + 1}
		}
	case *ssa.MakeChan:
		cp := e.mustInt(st, e.get(st, x.Size), "chan size")
		o := e.newObj(st, nil, &ChanV{Cap: cp})
		set(x, &ChanRef{Obj: o})
	case *ssa.Send:
		return e.selectOp(st, nil, nil, []selCase{{send: true, ch: e.get(st, x.Chan).(*ChanRef), val: e.get(st, x.X)}}, true)
	case *ssa.Select:
		var cases []selCase
		for _, sc := range x.States {
			c := selCase{send: sc.Dir == types.SendOnly, ch: e.get(st, sc.Chan).(*ChanRef)}
			if c.send {
				c.val = e.get(st, sc.Send)
			} else {
				c.elemT = sc.Chan.Type().Underlying().(*types.Chan).Elem()
			}
			cases = append(cases, c)
		}
		return e.selectOp(st, x, nil, cases, x.Blocking)
	case *ssa.Go:
		var gargs []Value
		for _, a := range x.Call.Args {
			gargs = append(gargs, e.get(st, a))
		}
		var gfn *FuncV
		if x.Call.IsInvoke() {
			e.abort("go of interface method unsupported")
		}
		if f, ok := x.Call.Value.(*ssa.Function); ok {
			gfn = &FuncV{Fn: f}
		} else {
			gfn = e.get(st, x.Call.Value).(*FuncV)
		}
		return e.spawn(st, gfn, gargs)
	case *ssa.Defer:
		var dargs []Value
		for _, a := range x.Call.Args {
			dargs = append(dargs, e.get(st, a))
		}
		var dc deferredCall
		if f, ok := x.Call.Value.(*ssa.Function); ok {
			dc = deferredCall{fn: &FuncV{Fn: f}, args: dargs}
		} else if b, isB := x.Call.Value.(*ssa.Builtin); isB {
			dc = deferredCall{builtin: b.Name(), args: dargs}
		} else if x.Call.IsInvoke() {
			iv, _ := e.get(st, x.Call.Value).(*IfaceV)
			if iv == nil || iv.T == nil {
				e.violation(st, "PANIC", "defer of nil interface method")
				return false
			}
			m := e.lookupMethod(iv.T, x.Call.Method)
			dc = deferredCall{fn: &FuncV{Fn: m}, args: append([]Value{iv.V}, dargs...)}
		} else {
			dc = deferredCall{fn: e.get(st, x.Call.Value).(*FuncV), args: dargs}
		}
		fr.deferred = append(fr.deferred, dc)
	case *ssa.Panic:
		e.violation(st, "PANIC", "explicit panic at "+e.pos(x.Pos()))
		return false
	case *ssa.RunDefers:
		if n := len(fr.deferred); n > 0 {
			d := fr.deferred[n-1]
			fr.deferred = fr.deferred[:n-1]
			fr.ip-- // come back to rundefers after the deferred call returns
			if d.builtin != "" {
				return e.builtin(st, nil, d.builtin, d.args, nil)
			}
			return e.callFn(st, nil, d.fn.Fn, d.fn.Bind, d.args)
		}
	case *ssa.DebugRef:
	default:
		e.abort("instruction %T unsupported: %s", ins, ins)
	}
	return true
}

func (e *Engine) lookupMethod(t types.Type, m *types.Func) *ssa.Function {
	sel := e.prog.MethodSets.MethodSet(t).Lookup(m.Pkg(), m.Name())
	if sel == nil {
		e.abort("invoke: no method %s on %s", m.Name(), t)
	}
	return e.prog.MethodValue(sel)
}

// assume adds c to the path condition; false if the path becomes infeasible.
func (e *Engine) assume(st *State, c *Term) bool {
	if c.IsConst() {
		return c.boolVal()
	}
	if r := e.check(st.pc, c); r != "sat" {
		if r != "unsat" {
			e.Unknown++
			e.abort("INCONCLUSIVE: solver %s on assumption", r)
		}
		return false
	}
	st.addPC(c)
	return true
}

func isSyncInstr(ins ssa.Instruction) bool {
	switch x := ins.(type) {
	case *ssa.Select, *ssa.Send:
		return true
	case *ssa.UnOp:
		return x.Op == token.ARROW
	case *ssa.Call:
		if f, ok := x.Call.Value.(*ssa.Function); ok {
			n := f.String()
			return strings.HasPrefix(n, "(*sync.") || f.Name() == "vpYield"
		}
	}
	return false
}

func (e *Engine) runPhis(st *State) {
	fr := st.fr
	var vals []Value
	var phis []*ssa.Phi
	for _, ins := range fr.block.Instrs {
		phi, ok := ins.(*ssa.Phi)
		if !ok {
			break
		}
		for i, pred := range fr.block.Preds {
			if pred == fr.prev {
				vals = append(vals, e.get(st, phi.Edges[i]))
				phis = append(phis, phi)
				break
			}
		}
	}
	for i, phi := range phis {
		fr.env[phi] = vals[i]
	}
	fr.ip = len(phis)
}

func (e *Engine) slice(st *State, x *ssa.Slice) bool {
	ts := e.ts
	base := e.get(st, x.X)
	idx := func(v ssa.Value, def *Term) *Term {
		if v == nil {
			return def
		}
		_, sg, _ := intWidth(v.Type())
		return e.ext64(e.get(st, v).(*Term), sg)
	}
	zero := ts.BVInt(64, 0)
	where := e.pos(x.Pos())
	switch b := base.(type) {
	case *SliceV:
		if b.Obj == nil {
			lo := idx(x.Low, zero)
			hi := idx(x.High, zero)
			if !e.require(st, ts.And(ts.Eq(lo, zero), ts.Eq(hi, zero)), "PANIC", "slice bounds out of range (nil slice) at "+where) {
				return false
			}
			st.fr.env[x] = &SliceV{}
			return true
		}
		lo := idx(x.Low, zero)
		hi := idx(x.High, b.Len)
		mx := idx(x.Max, b.Cap)
		// 0 <= lo <= hi <= max <= cap
		okc := ts.And(ts.App(BoolSort, "bvule", lo, hi), ts.App(BoolSort, "bvule", hi, mx), ts.App(BoolSort, "bvule", mx, b.Cap))
		if !e.require(st, okc, "PANIC", "slice bounds out of range at "+where) {
			return false
		}
		st.fr.env[x] = &SliceV{Obj: b.Obj, Off: ts.App(BV(64), "bvadd", b.Off, lo),
			Len: ts.App(BV(64), "bvsub", hi, lo), Cap: ts.App(BV(64), "bvsub", mx, lo)}
	case *PtrV: // *[N]T
		arr := e.load(st, b).(*ArrayV)
		n := ts.BVInt(64, int64(len(arr.E)))
		lo := idx(x.Low, zero)
		hi := idx(x.High, n)
		okc := ts.And(ts.App(BoolSort, "bvule", lo, hi), ts.App(BoolSort, "bvule", hi, n))
		if !e.require(st, okc, "PANIC", "slice bounds out of range at "+where) {
			return false
		}
		if len(b.Path) != 0 {
			// array nested in a struct: copy out is not aliasing-correct; treat as its own object view
			e.abort("slice of nested array unsupported")
		}
		st.fr.env[x] = &SliceV{Obj: b.Obj, Off: lo, Len: ts.App(BV(64), "bvsub", hi, lo), Cap: ts.App(BV(64), "bvsub", n, lo)}
	case *StrV:
		if b.Doc != nil {
			e.abort("slicing opaque JSON text")
		}
		n := ts.BVInt(64, int64(len(b.B)))
		lo := idx(x.Low, zero)
		hi := idx(x.High, n)
		okc := ts.And(ts.App(BoolSort, "bvule", lo, hi), ts.App(BoolSort, "bvule", hi, n))
		if !e.require(st, okc, "PANIC", "string slice bounds out of range at "+where) {
			return false
		}
		l, h := e.concretize(st, lo, "string slice low"), e.concretize(st, hi, "string slice high")
		st.fr.env[x] = &StrV{B: b.B[l:h]}
	default:
		e.abort("slice on %T", base)
	}
	return true
}

func (e *Engine) doReturn(st *State, res Value) bool {
	fr := st.fr
	if fr.caller == nil {
		if st.cur == 0 {
			st.finished = true
			return false // harness (main thread) finished
		}
		st.threads[st.cur].done = true
		st.blockedNow = true // hand over to the scheduler
		return true
	}
	if fr.caller.native != nil {
		fr.caller.native.ret = res
	} else if fr.dest != nil {
		fr.caller.env[fr.dest] = res
	}
	st.fr = fr.caller
	return true
}

func (e *Engine) violation(st *State, kind, msg string) {
	v := &Violation{Msg: msg, Kind: kind, state: st, RandomSelect: st.randomSelect}
	v.Trace = append([]string(nil), st.trace...)
	// prefer a counterexample whose symbolic buffers are short enough to be built natively
	small, hasBytes := st, false
	for _, n := range st.nondets {
		if n.Kind == "bytes" {
			if !hasBytes {
				small, hasBytes = st.clone(), true
			}
			small.addPC(e.ts.App(BoolSort, "bvule", n.T, e.ts.BVInt(64, 256)))
		}
	}
	if vec, ok := e.modelVector(small); ok {
		v.Vector, v.HasVec = vec, true
	} else if hasBytes {
		if vec, ok := e.modelVector(st); ok {
			v.Vector, v.HasVec = vec, true
		}
	}
	// de-duplicate by message+kind (one replay per failing site is enough)
	for _, o := range e.Violations {
		if o.Msg == v.Msg && o.Kind == v.Kind && (o.HasVec || !v.HasVec) {
			return
		}
	}
	e.Violations = append(e.Violations, v)
}

// modelVector evaluates every nondet of the path in a model of its path condition.
func (e *Engine) modelVector(st *State) ([]ReplayVal, bool) {
	var terms []*Term
	for _, n := range st.nondets {
		terms = append(terms, n.T)
	}
	vals, ok := e.sol.Model(st.pc, terms)
	if !ok {
		return nil, false
	}
	out := make([]ReplayVal, len(st.nondets))
	for i, n := range st.nondets {
		out[i] = ReplayVal{K: n.Kind, V: vals[i].String()}
	}
	// byte arrays: evaluate the first min(len,64) cells
	for i, n := range st.nondets {
		if n.Kind != "bytes" {
			continue
		}
		ln := int(vals[i].Int64())
		if !vals[i].IsInt64() || ln > 256 {
			ln = 256
		}
		var cells []*Term
		for j := 0; j < ln; j++ {
			cells = append(cells, e.ts.App(BV(8), "select", n.Arr, e.ts.BVInt(64, int64(j))))
		}
		out[i].B = []int{}
		if len(cells) > 0 {
			cv, ok := e.sol.Model(st.pc, cells)
			if !ok {
				return nil, false
			}
			for _, c := range cv {
				out[i].B = append(out[i].B, int(c.Int64()))
			}
		}
	}
	return out, true
}

func (e *Engine) enter(st *State, fn *ssa.Function, args []Value, bind []Value, dest ssa.Value) {
	if fn.Blocks == nil {
		e.abort("UNMODELLED call to %s (no body)", fn)
	}
	e.FuncsSeen[fn.String()] = true
	fr := &Frame{fn: fn, env: make(map[ssa.Value]Value, 16), block: fn.Blocks[0], caller: st.fr, dest: dest}
	for i, p := range fn.Params {
		fr.env[p] = args[i]
	}
	for i, fv := range fn.FreeVars {
		fr.env[fv] = bind[i]
	}
	st.fr = fr
	depth := 0
	for f := fr; f != nil; f = f.caller {
		depth++
	}
	if depth > 200 {
		e.abort("UNWINDING: call depth exceeded")
	}
}

func (e *Engine) call(st *State, x *ssa.Call) bool {
	com := x.Call
	var args []Value
	for _, a := range com.Args {
		args = append(args, e.get(st, a))
	}
	if b, ok := com.Value.(*ssa.Builtin); ok {
		return e.builtin(st, x, b.Name(), args, x.Type())
	}
	if com.IsInvoke() {
		iv, _ := e.get(st, com.Value).(*IfaceV)
		if iv == nil || iv.T == nil {
			e.violation(st, "PANIC", "nil interface method call "+com.Method.Name()+" at "+e.pos(x.Pos()))
			return false
		}
		m := e.lookupMethod(iv.T, com.Method)
		return e.callFn(st, x, m, nil, append([]Value{iv.V}, args...))
	}
	var fn *ssa.Function
	var bind []Value
	switch c := com.Value.(type) {
	case *ssa.Function:
		fn = c
	default:
		fv, _ := e.get(st, com.Value).(*FuncV)
		if fv == nil {
			e.violation(st, "PANIC", "call of nil func at "+e.pos(x.Pos()))
			return false
		}
		fn, bind = fv.Fn, fv.Bind
	}
	return e.callFn(st, x, fn, bind, args)
}

func (e *Engine) builtin(st *State, x *ssa.Call, name string, args []Value, resT types.Type) bool {
	ts := e.ts
	set := func(v Value) {
		if x != nil {
			st.fr.env[x] = v
		}
	}
	switch name {
	case "len":
		switch a := args[0].(type) {
		case *SliceV:
			if a.Obj == nil {
				set(ts.BVInt(64, 0))
			} else {
				set(a.Len)
			}
		case *StrV:
			if a.Doc != nil {
				set(a.Len)
			} else {
				set(ts.BVInt(64, int64(len(a.B))))
			}
		case *MapRef:
			n := 0
			if a.Obj != nil {
				n = len(st.heap[a.Obj.ID].(*MapV).Keys)
			}
			set(ts.BVInt(64, int64(n)))
		case *ChanRef:
			if a.Obj == nil {
				set(ts.BVInt(64, 0))
			} else {
				set(ts.BVInt(64, int64(len(st.heap[a.Obj.ID].(*ChanV).Buf))))
			}
		case *PtrV:
			set(ts.BVInt(64, int64(len(e.load(st, a).(*ArrayV).E))))
		case *ArrayV:
			set(ts.BVInt(64, int64(len(a.E))))
		default:
			e.abort("len of %T", a)
		}
	case "cap":
		switch a := args[0].(type) {
		case *SliceV:
			if a.Obj == nil {
				set(ts.BVInt(64, 0))
			} else {
				set(a.Cap)
			}
		case *ChanRef:
			if a.Obj == nil {
				set(ts.BVInt(64, 0))
			} else {
				set(ts.BVInt(64, int64(st.heap[a.Obj.ID].(*ChanV).Cap)))
			}
		default:
			e.abort("cap of %T", a)
		}
	case "close":
		cr := args[0].(*ChanRef)
		ch := e.chanOf(st, cr)
		if ch == nil {
			e.violation(st, "PANIC", "close of nil channel")
			return false
		}
		if ch.Closed {
			e.violation(st, "PANIC", "close of closed channel")
			return false
		}
		st.heap[cr.Obj.ID] = &ChanV{Cap: ch.Cap, Buf: ch.Buf, Closed: true}
		e.closeWake(st, cr.Obj.ID)
	case "delete":
		mr := args[0].(*MapRef)
		if mr.Obj == nil {
			return true
		}
		mv := st.heap[mr.Obj.ID].(*MapV)
		for i, ek := range mv.Keys {
			if e.decide(st, e.valEq(st, ek, args[1])) {
				nm := &MapV{}
				nm.Keys = append(append([]Value(nil), mv.Keys[:i]...), mv.Keys[i+1:]...)
				nm.Vals = append(append([]Value(nil), mv.Vals[:i]...), mv.Vals[i+1:]...)
				st.heap[mr.Obj.ID] = nm
				break
			}
		}
	case "min", "max":
		acc := args[0].(*Term)
		var sg bool
		if x != nil {
			_, sg, _ = intWidth(x.Type())
		}
		for _, a := range args[1:] {
			b := a.(*Term)
			var lt *Term
			if acc.sort.K == SFP {
				e.abort("min/max on floats unsupported")
			}
			if sg {
				lt = ts.App(BoolSort, "bvslt", b, acc)
			} else {
				lt = ts.App(BoolSort, "bvult", b, acc)
			}
			if name == "max" {
				lt = ts.Not(ts.Or(lt, ts.Eq(acc, b)))
			}
			acc = ts.Ite(lt, b, acc)
		}
		set(acc)
	case "copy":
		dst := args[0].(*SliceV)
		var src []Value
		switch s := args[1].(type) {
		case *SliceV:
			if s.Obj != nil {
				if _, sym := st.heap[s.Obj.ID].(*SymBytesV); sym {
					return e.copySym(st, x, dst, s)
				}
			}
			if dst.Obj != nil {
				if _, sym := st.heap[dst.Obj.ID].(*SymBytesV); sym {
					return e.copySym(st, x, dst, s)
				}
			}
			src = e.sliceElems(st, s)
		case *StrV:
			for _, b := range s.B {
				src = append(src, b)
			}
		}
		if dst.Obj == nil {
			set(ts.BVInt(64, 0))
			return true
		}
		off, ln := e.mustInt(st, dst.Off, "copy dst off"), e.mustInt(st, dst.Len, "copy dst len")
		n := len(src)
		if ln < n {
			n = ln
		}
		old := st.heap[dst.Obj.ID].(*ArrayV)
		na := &ArrayV{E: append([]Value(nil), old.E...)}
		copy(na.E[off:off+n], src[:n])
		st.heap[dst.Obj.ID] = na
		set(ts.BVInt(64, int64(n)))
	case "append":
		sl := args[0].(*SliceV)
		var elems []Value
		switch a := args[1].(type) {
		case *SliceV:
			if a.Obj != nil {
				if db, isDoc := st.heap[a.Obj.ID].(*DocBytesV); isDoc && sl.Obj == nil {
					// append([]byte(nil), doc...) : a copy of the JSON text
					o := e.newObj(st, nil, &DocBytesV{Node: db.Node, Len: db.Len})
					set(&SliceV{Obj: o, Off: ts.BVInt(64, 0), Len: db.Len, Cap: db.Len})
					return true
				}
			}
			elems = append(elems, e.sliceElems(st, a)...)
		case *StrV:
			if a.Doc != nil {
				e.abort("append of opaque JSON text")
			}
			for _, bt := range a.B {
				elems = append(elems, bt)
			}
		default:
			e.abort("append of %T", a)
		}
		n := len(elems)
		if sl.Obj == nil {
			if n == 0 {
				set(sl)
				return true
			}
			set(e.mkSlice(st, elems))
			return true
		}
		off, ln, cp := e.mustInt(st, sl.Off, "off"), e.mustInt(st, sl.Len, "len"), e.mustInt(st, sl.Cap, "cap")
		old, okA := st.heap[sl.Obj.ID].(*ArrayV)
		if !okA {
			e.abort("append to %T", st.heap[sl.Obj.ID])
		}
		if ln+n <= cp {
			na := &ArrayV{E: append([]Value(nil), old.E...)}
			for i, v := range elems {
				na.E[off+ln+i] = v
			}
			st.heap[sl.Obj.ID] = na
			set(&SliceV{Obj: sl.Obj, Off: sl.Off, Len: ts.BVInt(64, int64(ln+n)), Cap: sl.Cap})
			return true
		}
		ncap := 2 * cp
		if ncap < ln+n {
			ncap = ln + n
		}
		elemT := resT.Underlying().(*types.Slice).Elem()
		na := &ArrayV{E: make([]Value, ncap)}
		for i := range na.E {
			na.E[i] = e.zero(elemT)
		}
		copy(na.E, old.E[off:off+ln])
		copy(na.E[ln:], elems)
		o := e.newObj(st, nil, na)
		set(&SliceV{Obj: o, Off: ts.BVInt(64, 0), Len: ts.BVInt(64, int64(ln+n)), Cap: ts.BVInt(64, int64(ncap))})
	case "print", "println":
		e.violation(st, "FORBIDDEN", "builtin "+name+" writes to stderr")
		return false
	case "ssa:wrapnilchk":
		set(args[0])
	default:
		e.abort("builtin %s unsupported", name)
	}
	return true
}

// copySym implements copy where either side is a symbolic byte array, for small concrete counts.
func (e *Engine) copySym(st *State, x *ssa.Call, dst, src *SliceV) bool {
	ts := e.ts
	if dst.Obj == nil || src.Obj == nil {
		if x != nil {
			st.fr.env[x] = ts.BVInt(64, 0)
		}
		return true
	}
	nT := ts.Ite(ts.App(BoolSort, "bvult", src.Len, dst.Len), src.Len, dst.Len)
	if dsb, ok := st.heap[dst.Obj.ID].(*SymBytesV); ok {
		if ssb, ok := st.heap[src.Obj.ID].(*SymBytesV); ok {
			st.heap[dst.Obj.ID] = e.symCopy(dsb, dst.Off, ssb, src.Off, nT)
			if x != nil {
				st.fr.env[x] = nT
			}
			return true
		}
	}
	n := e.concretize(st, nT, "copy length")
	if n > 64 {
		e.abort("UNWINDING: copy of %d symbolic bytes", n)
	}
	for i := 0; i < n; i++ {
		var b *Term
		si := ts.App(BV(64), "bvadd", src.Off, ts.BVInt(64, int64(i)))
		switch sv := st.heap[src.Obj.ID].(type) {
		case *SymBytesV:
			b = e.symSelect(sv, si)
		case *ArrayV:
			b = sv.E[e.concretize(st, si, "copy src index")].(*Term)
		}
		di := ts.App(BV(64), "bvadd", dst.Off, ts.BVInt(64, int64(i)))
		switch dv := st.heap[dst.Obj.ID].(type) {
		case *SymBytesV:
			st.heap[dst.Obj.ID] = e.symStore(dv, di, b)
		case *ArrayV:
			na := &ArrayV{E: append([]Value(nil), dv.E...)}
			na.E[e.concretize(st, di, "copy dst index")] = b
			st.heap[dst.Obj.ID] = na
		}
	}
	if x != nil {
		st.fr.env[x] = ts.BVInt(64, int64(n))
	}
	return true
}

// Alloc records an allocation whose size comes from symbolic data (checked by harness monitors).
func (e *Engine) Alloc(st *State, size *Term, where string) {
	st.trace = append(st.trace, "alloc@"+where)
	if st.maxAlloc == nil {
		st.maxAlloc = size
	} else {
		st.maxAlloc = e.ts.Ite(e.ts.App(BoolSort, "bvsgt", size, st.maxAlloc), size, st.maxAlloc)
	}
}

// symSelect reads byte idx of a symbolic byte array through its copy/store overlays.
func (e *Engine) symSelect(sb *SymBytesV, idx *Term) *Term {
	ts := e.ts
	val := ts.App(BV(8), "select", sb.Arr, idx)
	for _, o := range sb.Over {
		in := ts.And(ts.App(BoolSort, "bvule", o.Off, idx), ts.App(BoolSort, "bvult", ts.App(BV(64), "bvsub", idx, o.Off), o.N))
		var v *Term
		if o.Src == nil {
			v = o.Val
		} else {
			v = e.symSelect(o.Src, ts.App(BV(64), "bvadd", o.SrcOff, ts.App(BV(64), "bvsub", idx, o.Off)))
		}
		val = ts.Ite(in, v, val)
	}
	return val
}

func (e *Engine) symStore(sb *SymBytesV, idx, v *Term) *SymBytesV {
	if len(sb.Over) == 0 {
		return &SymBytesV{Arr: e.ts.App(ArrSort, "store", sb.Arr, idx, v), Len: sb.Len}
	}
	over := append(append([]overlayRec(nil), sb.Over...), overlayRec{Off: idx, N: e.ts.BVInt(64, 1), Val: v})
	return &SymBytesV{Arr: sb.Arr, Len: sb.Len, Over: over}
}

// symCopy copies n (symbolic) bytes from src[srcOff:] into dst[dstOff:].
func (e *Engine) symCopy(dst *SymBytesV, dstOff *Term, src *SymBytesV, srcOff, n *Term) *SymBytesV {
	over := append(append([]overlayRec(nil), dst.Over...), overlayRec{Off: dstOff, N: n, Src: src, SrcOff: srcOff})
	return &SymBytesV{Arr: dst.Arr, Len: dst.Len, Over: over}
}

// RunHarness explores all paths of fn.
func (e *Engine) RunHarness(fn *ssa.Function) {
	st := &State{heap: map[int]Value{}, syncInt: map[string]int{}, pools: map[string][]Value{}}
	e.enter(st, fn, nil, nil, nil)
	if init := e.pkg.Func("init"); init != nil {
		e.enter(st, init, nil, nil, nil)
	}
	st.threads = []*Thread{{}}
	st.preemptLeft = e.PreemptBound
	e.work = append(e.work, st)
	for len(e.work) > 0 {
		st := e.work[len(e.work)-1]
		e.work = e.work[:len(e.work)-1]
		e.runPath(st)
		if e.Paths+e.Aborts > e.MaxPaths {
			e.Aborts++
			e.note("UNWINDING: path budget exceeded (%d paths)", e.MaxPaths)
			e.work = nil
			break
		}
	}
}

func (e *Engine) runPath(st *State) {
	defer func() {
		if r := recover(); r != nil {
			if ap, ok := r.(abortPath); ok {
				where := ""
				if st.fr != nil && st.fr.fn != nil {
					where = " in " + st.fr.fn.String()
				}
				e.Aborts++
				e.note("ABORT: %s%s", ap.reason, where)
				e.pendingFalse = nil
				return
			}
			panic(r)
		}
	}()
	for {
		if st.switchNow {
			st.switchNow = false
			if st.switchTo > 0 {
				if traceSched {
					st.trace = append(st.trace, fmt.Sprintf("g%d(preempted %s)->g%d", st.cur, e.framePos(st.fr), st.switchTo-1))
				}
				st.threads[st.cur].fr = st.fr
				st.stuck = 0 // the preempted goroutine is runnable: nobody is stuck yet
				st.cur = st.switchTo - 1
				st.fr = st.threads[st.cur].fr
			} else {
				e.switchThread(st, false)
			}
			st.switchTo = 0
		}
		cont := e.step(st)
		if p := e.takePending(); p != nil {
			e.work = append(e.work, p)
		}
		if !cont {
			e.Paths++
			if st.sawAssert {
				e.PathsAsserting++
			}
			if st.finished {
				e.offerWitness(st)
			}
			return
		}
		if st.blockedNow {
			st.blockedNow = false
			if !e.switchThread(st, true) {
				e.Paths++
				return
			}
		} else {
			st.stuck = 0
		}
	}
}

func sortedKeys(m map[string]bool) []string {
	var out []string
	for k := range m {
		out = append(out, k)
	}
	sort.Strings(out)
	return out
}

// offerWitness keeps two uniform samples (reservoirs, seeded) of the paths on which the harness ran
// to its end: paths the native build can be steered along, and paths that depend on a library
// model's own choices (see nativeObstacle). Their models are later executed against the real code
// (witness.go).
func (e *Engine) offerWitness(st *State) {
	e.Finished++
	if e.fixedMode || e.WitnessK <= 0 {
		return
	}
	res, n, k := &e.witStates, &e.finNative, e.WitnessK
	if e.nativeObstacle(st) != "" {
		res, n, k = &e.witAbstract, &e.finAbstract, 2
	}
	*n++
	if len(*res) < k {
		*res = append(*res, st)
		return
	}
	if j := e.witRng.Intn(*n); j < k {
		(*res)[j] = st
	}
}

// nativeObstacle explains why the native build cannot be steered along this path: the path
// condition mentions a variable that is not one of the harness's nondets (an uninterpreted CRC
// value, a declared regexp/bloom answer, opaque JSON bytes), or a library model forked on its
// own outcome. "" = every choice on the path is a harness nondet, so the vector determines the
// native run completely.
func (e *Engine) nativeObstacle(st *State) string {
	if st.abstract != "" {
		return st.abstract
	}
	if st.randomSelect {
		return "a select with several ready cases was executed: Go picks among them at random, the input vector does not determine the native run"
	}
	own := map[int]bool{}
	for _, n := range st.nondets {
		own[n.T.id] = true
		if n.Arr != nil {
			own[n.Arr.id] = true
		}
	}
	seen := map[int]bool{}
	var walk func(t *Term) string
	walk = func(t *Term) string {
		if seen[t.id] || t.maxVar == 0 {
			return ""
		}
		seen[t.id] = true
		if t.op == "var" {
			if !own[t.id] {
				return t.name
			}
			return ""
		}
		for _, a := range t.args {
			if r := walk(a); r != "" {
				return r
			}
		}
		return ""
	}
	for _, c := range st.pc {
		if r := walk(c); r != "" {
			return "path condition depends on a value chosen inside a library model (" + r + ")"
		}
	}
	return ""
}
