package main

// Witness validation: on every run — including a clean one with no counterexample — a seeded
// sample of the *complete* symbolic paths of each harness is turned into concrete inputs by the
// solver (a model of the full path condition; this doubles as the reachability witness) and those
// inputs are executed against the real build with `go test` (harness + /repo, no encoder
// involved). The native run must consume exactly the nondets the symbolic path created, evaluate
// exactly the same sequence of assertions, and pass all of them. A mismatch means the encoding
// misrepresents the code and makes the check inconclusive (exit 2), never a pass.
//
// Harnesses that replace library code by models the native build cannot use (HS_ harnesses,
// overrides of functions outside /repo, engine-level models of regexp/bloom/CRC) are validated by
// concrete re-execution of the SSA only; that count is reported separately and is not included in
// traces_validated_against_impl.

import (
	"bytes"
	"encoding/json"
	"fmt"
	"os"
	"os/exec"
	"path/filepath"
	"sort"
	"strings"
	"time"

	"golang.org/x/tools/go/ssa"
)

type witness struct {
	Harness  string      `json:"harness"`
	Vector   []ReplayVal `json:"vector"`
	Asserts  []string    `json:"asserts"`
	Thorough bool        `json:"thorough"`
	Enable   []string    `json:"enable,omitempty"` // native overrides switched on for this harness
	stubs    map[string]string
	obstacle string // why this path cannot be run natively ("" = it can)
	// concurrent: the symbolic path ran more than one goroutine. The native scheduler is not bound
	// to the executor's schedule, so a native run of the same vector may legitimately take another
	// interleaving (consume the nondeterministic inputs in another order, reach other assertions).
	concurrent bool
	cfg        harnessCfg
	// outcome
	Mode   string `json:"-"` // native | ssa-concrete
	Result string `json:"-"` // agree | mismatch | error
	Detail string `json:"-"`
}

func witnessPerHarness(thorough bool) int {
	if thorough {
		return 12
	}
	return 4
}

// witnessModels asks the solver for a model of every sampled complete path. Buffers of symbolic
// length are asked to be short (<= 256 bytes, every cell evaluated) so that the native run can
// allocate them; if the path needs a longer buffer the witness is re-executed on the SSA only.
func (e *Engine) witnessModels() []*witness {
	var out []*witness
	model := func(st *State, obstacle string) {
		small := st
		hasBytes := false
		for _, n := range st.nondets {
			if n.Kind == "bytes" {
				if !hasBytes {
					small = st.clone()
					hasBytes = true
				}
				small.addPC(e.ts.App(BoolSort, "bvule", n.T, e.ts.BVInt(64, 256)))
			}
		}
		vec, ok := e.modelVector(small)
		if !ok && hasBytes {
			if vec, ok = e.modelVector(st); ok && obstacle == "" {
				obstacle = "the path needs a symbolic buffer longer than 256 bytes"
			}
		}
		if !ok {
			e.note("witness: no model for a complete path (solver inconclusive); skipped")
			return
		}
		out = append(out, &witness{Vector: vec, Asserts: append([]string{}, st.asserts...), Thorough: e.tierThorough, obstacle: obstacle, concurrent: len(st.threads) > 1})
	}
	for _, st := range e.witStates {
		model(st, "")
	}
	for _, st := range e.witAbstract {
		model(st, e.nativeObstacle(st))
	}
	e.witStates, e.witAbstract = nil, nil
	return out
}

type nativeWitnessOut struct {
	Index    int      `json:"index"`
	Result   string   `json:"result"`
	Asserts  []string `json:"asserts"`
	Consumed int      `json:"consumed"`
}

// validateWitnesses runs the sampled witnesses of all harnesses. Returns (native agreeing, ssa
// agreeing, problems).
// scheduleNotes: concurrent witnesses whose native run took another interleaving (reported in the
// evidence, not a problem).
var scheduleNotes []string

func validateWitnesses(prog *ssa.Program, pkg *ssa.Package, results []*harnessResult, overlay, mutated map[string][]byte, known map[string]knownFinding, noNative bool) (int, int, []string) {
	var problems []string
	var native []*witness
	nativeOK, ssaOK := 0, 0
	for _, r := range results {
		c := r.Cfg
		if k, ok := known[c.Known]; ok && k.Status == "open" {
			r.WitnessNote = "harness demonstrates an open known finding; witnesses not validated"
			continue
		}
		if len(r.Violations) > 0 || r.Aborts > 0 {
			continue
		}
		mode, why, enable := witnessMode(c)
		r.WitnessNote = why
		for _, w := range r.Witnesses {
			w.Harness, w.Mode, w.Enable, w.stubs, w.cfg = c.Name, mode, enable, c.Overrides, c
			if mode == "native" && !noNative && w.obstacle == "" {
				native = append(native, w)
				continue
			}
			w.Mode = "ssa-concrete"
			rr := runHarness(prog, pkg, c, w.Thorough, w.Vector)
			switch {
			case len(rr.Violations) > 0:
				w.Result, w.Detail = "mismatch", "concrete re-execution violates: "+rr.Violations[0].Msg
			case rr.Aborts > 0 || rr.Unknown > 0:
				w.Result, w.Detail = "error", "concrete re-execution aborted: "+strings.Join(rr.Notes, "; ")
			case rr.Finished == 0:
				w.Result, w.Detail = "mismatch", "concrete re-execution does not reach the end of the harness"
			default:
				w.Result = "agree"
				ssaOK++
			}
			if w.Result != "agree" {
				problems = append(problems, fmt.Sprintf("harness=%s witness (%s): %s", c.Name, w.Mode, w.Detail))
			}
		}
	}
	for _, grp := range groupByStubs(native) {
		outs, log, err := nativeWitnessRun(grp, overlay, mutated)
		if err != nil {
			problems = append(problems, "native witness run failed: "+err.Error()+": "+tail(log, 800))
			for _, w := range grp {
				w.Result, w.Detail = "error", err.Error()
			}
			continue
		}
		for i, w := range grp {
			o, ok := outs[i]
			switch {
			case !ok:
				w.Result, w.Detail = "error", "no native verdict"
			case o.Result != "passed":
				w.Result, w.Detail = "mismatch", "native run: "+o.Result
			case o.Consumed != len(w.Vector):
				w.Result, w.Detail = "mismatch", fmt.Sprintf("native run consumed %d nondets, symbolic path created %d", o.Consumed, len(w.Vector))
			case sortedJoin(o.Asserts) != sortedJoin(w.Asserts): // as multisets: Go's map iteration order is random natively
				w.Result, w.Detail = "mismatch", fmt.Sprintf("assertion sequence differs: native evaluated %d assertions, symbolic path %d", len(o.Asserts), len(w.Asserts))
			default:
				w.Result = "agree"
				nativeOK++
			}
			if w.Result != "agree" && w.concurrent {
				// A concurrent path: the native run took (or may have taken) another interleaving.
				// Decide the witness by deterministic re-execution of the same vector on the SSA
				// under the executor's own scheduler; only a disagreement there is a problem.
				nativeDetail := w.Detail
				rr := runHarness(prog, pkg, w.cfg, w.Thorough, w.Vector)
				switch {
				case len(rr.Violations) > 0:
					w.Result, w.Detail = "mismatch", "concrete re-execution violates: "+rr.Violations[0].Msg+" (native: "+nativeDetail+")"
				case rr.Aborts > 0 || rr.Unknown > 0:
					w.Result, w.Detail = "error", "concrete re-execution aborted: "+strings.Join(rr.Notes, "; ")+" (native: "+nativeDetail+")"
				case rr.Finished == 0:
					w.Result, w.Detail = "mismatch", "concrete re-execution does not reach the end of the harness (native: "+nativeDetail+")"
				default:
					w.Mode, w.Result = "ssa-concrete", "agree"
					w.Detail = "native run took another interleaving (" + nativeDetail + "); agreed on deterministic SSA re-execution"
					ssaOK++
					scheduleNotes = append(scheduleNotes, fmt.Sprintf("harness=%s: %s", w.Harness, w.Detail))
				}
			}
			if w.Result != "agree" {
				vb, _ := json.Marshal(w.Vector)
				problems = append(problems, fmt.Sprintf("harness=%s witness (native): %s vector=%s", w.Harness, w.Detail, tail(string(vb), 400)))
			}
		}
	}
	return nativeOK, ssaOK, problems
}

// witnessMode decides how a harness's witnesses can be validated.
func witnessMode(c harnessCfg) (mode, why string, enable []string) {
	if c.NoNative {
		return "ssa-concrete", "whole-file/stubbed-library harness: validated by concrete SSA re-execution only", nil
	}
	if c.Preempt > 0 {
		return "ssa-concrete", "concurrent harness: the native scheduler cannot be pinned to the symbolic schedule", nil
	}
	if c.NoWitness != "" {
		return "ssa-concrete", c.NoWitness, nil
	}
	var names []string
	for k := range c.Overrides {
		names = append(names, k)
	}
	sort.Strings(names)
	for _, k := range names {
		if !strings.Contains(k, "github.com/danthegoodman1/bloomsearch") {
			return "ssa-concrete", "overrides " + k + " (outside /repo: cannot be replaced in the native build)", nil
		}
		enable = append(enable, k)
	}
	return "native", "", enable
}

// nativeWitnessRun executes all witnesses in one `go test` process on /repo's working tree.
func nativeWitnessRun(ws []*witness, overlay, mutated map[string][]byte) (map[int]nativeWitnessOut, string, error) {
	scratch, err := os.MkdirTemp("", "vpwitness")
	if err != nil {
		return nil, "", err
	}
	defer os.RemoveAll(scratch)
	wf := filepath.Join(scratch, "witnesses.json")
	b, _ := json.Marshal(ws)
	if err := os.WriteFile(wf, b, 0o644); err != nil {
		return nil, "", err
	}
	ovFile, err := writeNativeOverlay(scratch, overlay, overrideTargets(ws))
	if err != nil {
		return nil, "", err
	}
	cmd := exec.Command("go", "test", "-tags", "verif", "-vet=off", "-v", "-count=1", "-run", "^TestVerifWitness$", "-overlay", ovFile, "-timeout", "600s", ".")
	cmd.Dir = repoDir
	cmd.Env = append(goEnv(), "VERIF_WITNESS="+wf)
	var ob bytes.Buffer
	cmd.Stdout, cmd.Stderr = &ob, &ob
	done := make(chan error, 1)
	if err := cmd.Start(); err != nil {
		return nil, "", err
	}
	go func() { done <- cmd.Wait() }()
	select {
	case <-done:
	case <-time.After(900 * time.Second):
		cmd.Process.Kill()
		return nil, ob.String(), fmt.Errorf("native witness run timed out")
	}
	log := ob.String()
	outs := map[int]nativeWitnessOut{}
	for _, l := range strings.Split(log, "\n") {
		if strings.HasPrefix(l, "VPWITNESS: ") {
			var o nativeWitnessOut
			if json.Unmarshal([]byte(strings.TrimPrefix(l, "VPWITNESS: ")), &o) == nil {
				outs[o.Index] = o
			}
		}
	}
	if len(outs) == 0 {
		return nil, log, fmt.Errorf("native witness run produced no verdict")
	}
	return outs, log, nil
}

// overrideTargets: /repo function -> Go stub, for every native override the witnesses enable.
func overrideTargets(ws []*witness) map[string]string {
	out := map[string]string{}
	for _, w := range ws {
		for _, k := range w.Enable {
			out[k] = w.stubs[k]
		}
	}
	return out
}


// groupByStubs partitions witnesses so that within a group no /repo function is replaced by two
// different stubs (one native build can dispatch a function to one stub only).
func groupByStubs(ws []*witness) [][]*witness {
	var groups [][]*witness
	var maps []map[string]string
next:
	for _, w := range ws {
		for gi, m := range maps {
			ok := true
			for _, k := range w.Enable {
				if cur, has := m[k]; has && cur != w.stubs[k] {
					ok = false
					break
				}
			}
			if ok {
				for _, k := range w.Enable {
					m[k] = w.stubs[k]
				}
				groups[gi] = append(groups[gi], w)
				continue next
			}
		}
		m := map[string]string{}
		for _, k := range w.Enable {
			m[k] = w.stubs[k]
		}
		maps = append(maps, m)
		groups = append(groups, []*witness{w})
	}
	return groups
}


func sortedJoin(a []string) string {
	b := append([]string(nil), a...)
	sort.Strings(b)
	return strings.Join(b, "\x00")
}
