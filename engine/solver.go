package main

import (
	"bufio"
	"fmt"
	"io"
	"math/big"
	"os/exec"
	"strings"
	"sync"
	"time"
)

// ---------- solver process ----------

// Solver is one long-lived SMT solver process fed with define-fun'd DAG nodes and queried
// with check-sat-assuming. A hard wall-clock limit per query kills and restarts the process.
type Solver struct {
	name    string
	argv    []string
	pre     []string
	cmd     *exec.Cmd
	in      io.WriteCloser
	bw      *bufio.Writer
	lines   chan string
	emitted map[int]bool
	Queries int
	Unknown int
	Time    time.Duration
	MaxQ    time.Duration
	log     io.Writer
	hard    time.Duration
	dead    bool
}

func StartSolver(name string, hard time.Duration, pre []string, argv ...string) (*Solver, error) {
	s := &Solver{name: name, argv: argv, pre: pre, hard: hard}
	if err := s.start(); err != nil {
		return nil, err
	}
	return s, nil
}

func (s *Solver) start() error {
	cmd := exec.Command(s.argv[0], s.argv[1:]...)
	in, err := cmd.StdinPipe()
	if err != nil {
		return err
	}
	outp, err := cmd.StdoutPipe()
	if err != nil {
		return err
	}
	cmd.Stderr = cmd.Stdout
	if err := cmd.Start(); err != nil {
		return err
	}
	s.cmd, s.in = cmd, in
	s.bw = bufio.NewWriterSize(in, 1<<16)
	s.emitted = map[int]bool{}
	s.lines = make(chan string, 1024)
	s.dead = false
	go func(r io.Reader, ch chan string) {
		br := bufio.NewReaderSize(r, 1<<20)
		for {
			line, err := br.ReadString('\n')
			if line != "" {
				ch <- strings.TrimSpace(line)
			}
			if err != nil {
				close(ch)
				return
			}
		}
	}(outp, s.lines)
	s.send("(set-option :produce-models true)")
	for _, p := range s.pre {
		s.send(p)
	}
	return nil
}

func (s *Solver) restart() {
	if s.cmd != nil && s.cmd.Process != nil {
		s.cmd.Process.Kill()
		go s.cmd.Wait()
	}
	s.start()
}

func (s *Solver) send(line string) {
	if s.log != nil {
		fmt.Fprintln(s.log, line)
	}
	s.bw.WriteString(line)
	s.bw.WriteByte('\n')
}

func (s *Solver) emit(t *Term) {
	if t.op == "const" || s.emitted[t.id] {
		return
	}
	// iterative post-order to avoid deep recursion on long chains
	type fr struct {
		t *Term
		i int
	}
	stack := []fr{{t, 0}}
	for len(stack) > 0 {
		top := &stack[len(stack)-1]
		if top.i < len(top.t.args) {
			a := top.t.args[top.i]
			top.i++
			if a.op != "const" && !s.emitted[a.id] {
				stack = append(stack, fr{a, 0})
			}
			continue
		}
		if !s.emitted[top.t.id] {
			s.emitted[top.t.id] = true
			s.send(top.t.def())
		}
		stack = stack[:len(stack)-1]
	}
}

// readLine returns the next non-empty output line, or an "(error" line on timeout / death.
func (s *Solver) readLine(deadline time.Time) string {
	s.bw.Flush()
	for {
		d := time.Until(deadline)
		if d <= 0 {
			d = time.Millisecond
		}
		select {
		case line, ok := <-s.lines:
			if !ok {
				s.dead = true
				return "(error \"solver died\")"
			}
			if line == "" {
				continue
			}
			return line
		case <-time.After(d):
			s.dead = true
			return "(error \"hard timeout\")"
		}
	}
}

// Check returns "sat", "unsat" or "unknown"/error text.
func (s *Solver) Check(assumps []*Term) string {
	start := time.Now()
	var lits []string
	for _, a := range assumps {
		if a.IsConst() {
			if !a.boolVal() {
				return "unsat"
			}
			continue
		}
		s.emit(a)
		if a.op == "not" && !a.args[0].IsConst() {
			lits = append(lits, "(not "+a.args[0].ref()+")")
		} else {
			lits = append(lits, a.ref())
		}
	}
	if len(lits) == 0 {
		return "sat"
	}
	s.send("(check-sat-assuming (" + strings.Join(lits, " ") + "))")
	res := s.readLine(start.Add(s.hard))
	s.Queries++
	el := time.Since(start)
	s.Time += el
	if el > s.MaxQ {
		s.MaxQ = el
	}
	if res != "sat" && res != "unsat" {
		s.Unknown++
		if s.dead || strings.HasPrefix(res, "(error") {
			s.restart()
		}
		if res != "unknown" && !strings.HasPrefix(res, "(error") {
			res = "(error \"unexpected: " + res + "\")"
		}
	}
	return res
}

// GetValues returns the model values (after a sat Check on this solver) of BV/Bool terms,
// as big.Int (bool: 0/1). ok=false on any parse trouble.
func (s *Solver) GetValues(ts []*Term) ([]*big.Int, bool) {
	out := make([]*big.Int, len(ts))
	var names []string
	var idx []int
	for i, t := range ts {
		if t.IsConst() {
			out[i] = t.cv
			continue
		}
		s.emit(t)
		names = append(names, t.ref())
		idx = append(idx, i)
	}
	if len(names) == 0 {
		return out, true
	}
	s.send("(get-value (" + strings.Join(names, " ") + "))")
	depth := 0
	var sb strings.Builder
	dl := time.Now().Add(30 * time.Second)
	for {
		line := s.readLine(dl)
		if strings.HasPrefix(line, "(error") {
			return nil, false
		}
		sb.WriteString(line)
		sb.WriteByte(' ')
		depth += strings.Count(line, "(") - strings.Count(line, ")")
		if depth <= 0 {
			break
		}
	}
	vals := parseValues(sb.String())
	if len(vals) != len(names) {
		return nil, false
	}
	for k, v := range vals {
		out[idx[k]] = v
	}
	return out, true
}

// parseValues extracts the value of each (name value) pair in a get-value reply, in order.
func parseValues(s string) []*big.Int {
	toks := tokenize(s)
	// grammar: ( (name val) (name val) ... ) where val is atom or (_ bvN w)
	var out []*big.Int
	i := 0
	if i < len(toks) && toks[i] == "(" {
		i++
	}
	for i < len(toks) && toks[i] == "(" {
		i++ // (
		// name: atom or parenthesised expr
		if toks[i] == "(" {
			d := 0
			for {
				if toks[i] == "(" {
					d++
				} else if toks[i] == ")" {
					d--
				}
				i++
				if d == 0 {
					break
				}
			}
		} else {
			i++
		}
		// value
		var v *big.Int
		if toks[i] == "(" {
			// (_ bvN w)
			if i+3 < len(toks) && toks[i+1] == "_" && strings.HasPrefix(toks[i+2], "bv") {
				v, _ = new(big.Int).SetString(toks[i+2][2:], 10)
			}
			d := 0
			for {
				if toks[i] == "(" {
					d++
				} else if toks[i] == ")" {
					d--
				}
				i++
				if d == 0 {
					break
				}
			}
		} else {
			a := toks[i]
			i++
			switch {
			case a == "true":
				v = big.NewInt(1)
			case a == "false":
				v = big.NewInt(0)
			case strings.HasPrefix(a, "#x"):
				v, _ = new(big.Int).SetString(a[2:], 16)
			case strings.HasPrefix(a, "#b"):
				v, _ = new(big.Int).SetString(a[2:], 2)
			}
		}
		if v == nil {
			return nil
		}
		out = append(out, v)
		if i < len(toks) && toks[i] == ")" {
			i++
		}
	}
	return out
}

func tokenize(s string) []string {
	var toks []string
	cur := strings.Builder{}
	flush := func() {
		if cur.Len() > 0 {
			toks = append(toks, cur.String())
			cur.Reset()
		}
	}
	for _, r := range s {
		switch r {
		case '(', ')':
			flush()
			toks = append(toks, string(r))
		case ' ', '\t', '\n', '\r':
			flush()
		default:
			cur.WriteRune(r)
		}
	}
	flush()
	return toks
}

func (s *Solver) Close() {
	if s.cmd == nil {
		return
	}
	s.send("(exit)")
	s.bw.Flush()
	s.in.Close()
	done := make(chan struct{})
	go func() { s.cmd.Wait(); close(done) }()
	select {
	case <-done:
	case <-time.After(2 * time.Second):
		s.cmd.Process.Kill()
	}
}

// ---------- portfolio ----------

// Portfolio routes queries: FloatingPoint queries go to cvc5; everything else goes to z3 with a
// short soft limit and falls back to cvc5 (longer limit) when z3 is inconclusive.
type Portfolio struct {
	mu         sync.Mutex
	z3, cvc    *Solver
	cross      bool // thorough tier: every conclusive answer is cross-checked on the other solver
	Disagree   int
	logPref    string
	SoftZ3     int
	SoftCVC    int
	lastSat    *Solver
	Fallback   int
	z3Timeouts int
}

func NewPortfolio(softZ3ms, softCVCms int, cross bool) (*Portfolio, error) {
	z, err := StartSolver("z3", time.Duration(softZ3ms*3+2000)*time.Millisecond, nil, "z3", "-in", fmt.Sprintf("-t:%d", softZ3ms))
	if err != nil {
		return nil, err
	}
	c, err := StartSolver("cvc5", time.Duration(softCVCms*2+2000)*time.Millisecond, []string{"(set-logic ALL)"}, "cvc5", "--incremental", "--lang=smt2", fmt.Sprintf("--tlimit-per=%d", softCVCms))
	if err != nil {
		return nil, err
	}
	return &Portfolio{z3: z, cvc: c, cross: cross, SoftZ3: softZ3ms, SoftCVC: softCVCms}, nil
}

func conclusive(r string) bool { return r == "sat" || r == "unsat" }

func (p *Portfolio) Check(q []*Term) string {
	fp := false
	for _, t := range q {
		if t.hasFP {
			fp = true
		}
	}
	if fp {
		r := p.cvc.Check(q)
		if r == "sat" {
			p.lastSat = p.cvc
		}
		return r
	}
	first, second := p.z3, p.cvc
	if p.z3Timeouts >= 2 {
		// z3 keeps timing out on this harness' queries (mixed signed/unsigned 64-bit bounds,
		// arrays): ask cvc5 first from now on
		first, second = p.cvc, p.z3
	}
	r := first.Check(q)
	if conclusive(r) {
		if r == "sat" {
			p.lastSat = first
		}
		if p.cross {
			r2 := second.Check(q)
			if conclusive(r2) && r2 != r {
				p.Disagree++
				return "(error \"solver disagreement " + first.name + "=" + r + " " + second.name + "=" + r2 + "\")"
			}
		}
		return r
	}
	if first == p.z3 {
		p.z3Timeouts++
	}
	p.Fallback++
	r2 := second.Check(q)
	if r2 == "sat" {
		p.lastSat = second
	}
	return r2
}

// Model evaluates terms in the model of the last sat answer for q (re-checks to be safe).
func (p *Portfolio) Model(q []*Term, ts []*Term) ([]*big.Int, bool) {
	fp := false
	for _, t := range append(append([]*Term(nil), q...), ts...) {
		if t.hasFP {
			fp = true
		}
	}
	order := []*Solver{p.z3, p.cvc}
	if fp {
		order = []*Solver{p.cvc}
	}
	for _, s := range order {
		if s.Check(q) == "sat" {
			if v, ok := s.GetValues(ts); ok {
				return v, true
			}
		}
	}
	return nil, false
}

func (p *Portfolio) Close() { p.z3.Close(); p.cvc.Close() }
