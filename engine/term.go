package main

import (
	"fmt"
	"math/big"
	"strings"
)

// ---------- sorts and terms ----------

type SortKind int

const (
	SBool SortKind = iota
	SBV
	SFP
	SArr // Array (BV64) (BV8)
)

type Sort struct {
	K      SortKind
	W      int // BV width
	EB, SB int // FP
}

func (s Sort) String() string {
	switch s.K {
	case SBool:
		return "Bool"
	case SBV:
		return fmt.Sprintf("(_ BitVec %d)", s.W)
	case SFP:
		return fmt.Sprintf("(_ FloatingPoint %d %d)", s.EB, s.SB)
	case SArr:
		return "(Array (_ BitVec 64) (_ BitVec 8))"
	}
	return "?"
}

var BoolSort = Sort{K: SBool}

func BV(w int) Sort { return Sort{K: SBV, W: w} }

var F64 = Sort{K: SFP, EB: 11, SB: 53}
var F32 = Sort{K: SFP, EB: 8, SB: 24}
var ArrSort = Sort{K: SArr}

type Term struct {
	id             int
	sort           Sort
	op             string // "const", "var", or SMT operator (possibly indexed, e.g. "(_ extract 7 0)")
	args           []*Term
	cv             *big.Int // BV const (unsigned repr) or bool const (0/1)
	name           string   // for var
	hasFP          bool
	minVar, maxVar int // smallest / largest variable number occurring in the term (0: none)
}

type TermStore struct {
	terms []*Term
	cons  map[string]*Term
	nvar  int
}

func NewTermStore() *TermStore { return &TermStore{cons: map[string]*Term{}} }

func (ts *TermStore) mk(sort Sort, op string, cv *big.Int, name string, args ...*Term) *Term {
	var sb strings.Builder
	sb.WriteString(op)
	sb.WriteByte('|')
	sb.WriteString(sort.String())
	if cv != nil {
		sb.WriteByte('#')
		sb.WriteString(cv.String())
	}
	sb.WriteString(name)
	for _, a := range args {
		fmt.Fprintf(&sb, ",%d", a.id)
	}
	key := sb.String()
	if t, ok := ts.cons[key]; ok {
		return t
	}
	t := &Term{id: len(ts.terms), sort: sort, op: op, args: args, cv: cv, name: name}
	t.hasFP = sort.K == SFP
	for _, a := range args {
		if a.hasFP {
			t.hasFP = true
		}
		if a.maxVar > t.maxVar {
			t.maxVar = a.maxVar
		}
		if a.minVar != 0 && (t.minVar == 0 || a.minVar < t.minVar) {
			t.minVar = a.minVar
		}
	}
	ts.terms = append(ts.terms, t)
	ts.cons[key] = t
	return t
}

func (t *Term) IsConst() bool { return t.op == "const" }

func (ts *TermStore) Bool(b bool) *Term {
	v := big.NewInt(0)
	if b {
		v = big.NewInt(1)
	}
	return ts.mk(BoolSort, "const", v, "")
}

func mask(w int) *big.Int {
	m := new(big.Int).Lsh(big.NewInt(1), uint(w))
	return m.Sub(m, big.NewInt(1))
}

func (ts *TermStore) BVConst(w int, v *big.Int) *Term {
	u := new(big.Int).And(v, mask(w)) // two's complement wrap for negatives
	if v.Sign() < 0 {
		u = new(big.Int).Add(new(big.Int).Lsh(big.NewInt(1), uint(w)), v)
		u.And(u, mask(w))
	}
	return ts.mk(BV(w), "const", u, "")
}

func (ts *TermStore) BVInt(w int, v int64) *Term { return ts.BVConst(w, big.NewInt(v)) }

func (ts *TermStore) FPConstBits(sort Sort, bits uint64) *Term {
	return ts.mk(sort, "const", new(big.Int).SetUint64(bits), "")
}

func (ts *TermStore) Var(prefix string, sort Sort) *Term {
	ts.nvar++
	t := ts.mk(sort, "var", nil, fmt.Sprintf("%s_%d", prefix, ts.nvar))
	t.minVar, t.maxVar = ts.nvar, ts.nvar
	return t
}

func signed(w int, u *big.Int) *big.Int {
	if u.Bit(w-1) == 1 {
		return new(big.Int).Sub(u, new(big.Int).Lsh(big.NewInt(1), uint(w)))
	}
	return u
}

func (t *Term) boolVal() bool { return t.cv.Sign() != 0 }

// App builds an application with constant folding for the common cases.
func (ts *TermStore) App(sort Sort, op string, args ...*Term) *Term {
	allc := true
	for _, a := range args {
		if !a.IsConst() || a.sort.K == SFP {
			allc = false
		}
	}
	switch op {
	case "not":
		if args[0].IsConst() {
			return ts.Bool(!args[0].boolVal())
		}
		if args[0].op == "not" {
			return args[0].args[0]
		}
	case "and":
		var keep []*Term
		for _, a := range args {
			if a.IsConst() {
				if !a.boolVal() {
					return ts.Bool(false)
				}
				continue
			}
			keep = append(keep, a)
		}
		if len(keep) == 0 {
			return ts.Bool(true)
		}
		if len(keep) == 1 {
			return keep[0]
		}
		args = keep
	case "or":
		var keep []*Term
		for _, a := range args {
			if a.IsConst() {
				if a.boolVal() {
					return ts.Bool(true)
				}
				continue
			}
			keep = append(keep, a)
		}
		if len(keep) == 0 {
			return ts.Bool(false)
		}
		if len(keep) == 1 {
			return keep[0]
		}
		args = keep
	case "ite":
		if args[0].IsConst() {
			if args[0].boolVal() {
				return args[1]
			}
			return args[2]
		}
		if args[1] == args[2] {
			return args[1]
		}
	case "=":
		if args[0] == args[1] && args[0].sort.K != SFP {
			return ts.Bool(true)
		}
		if allc && args[0].sort.K != SArr {
			return ts.Bool(args[0].cv.Cmp(args[1].cv) == 0)
		}
	}
	if allc && len(args) == 2 && args[0].sort.K == SBV {
		w := args[0].sort.W
		a, b := args[0].cv, args[1].cv
		switch op {
		case "bvadd":
			return ts.BVConst(w, new(big.Int).Add(a, b))
		case "bvsub":
			return ts.BVConst(w, new(big.Int).Sub(a, b))
		case "bvmul":
			return ts.BVConst(w, new(big.Int).Mul(a, b))
		case "bvand":
			return ts.BVConst(w, new(big.Int).And(a, b))
		case "bvor":
			return ts.BVConst(w, new(big.Int).Or(a, b))
		case "bvxor":
			return ts.BVConst(w, new(big.Int).Xor(a, b))
		case "bvult":
			return ts.Bool(a.Cmp(b) < 0)
		case "bvule":
			return ts.Bool(a.Cmp(b) <= 0)
		case "bvugt":
			return ts.Bool(a.Cmp(b) > 0)
		case "bvuge":
			return ts.Bool(a.Cmp(b) >= 0)
		case "bvslt":
			return ts.Bool(signed(w, a).Cmp(signed(w, b)) < 0)
		case "bvsle":
			return ts.Bool(signed(w, a).Cmp(signed(w, b)) <= 0)
		case "bvsgt":
			return ts.Bool(signed(w, a).Cmp(signed(w, b)) > 0)
		case "bvsge":
			return ts.Bool(signed(w, a).Cmp(signed(w, b)) >= 0)
		case "bvshl":
			if b.IsUint64() && b.Uint64() < uint64(w) {
				return ts.BVConst(w, new(big.Int).Lsh(a, uint(b.Uint64())))
			}
			return ts.BVInt(w, 0)
		case "bvlshr":
			if b.IsUint64() && b.Uint64() < uint64(w) {
				return ts.BVConst(w, new(big.Int).Rsh(a, uint(b.Uint64())))
			}
			return ts.BVInt(w, 0)
		case "bvashr":
			sa := signed(w, a)
			if b.IsUint64() && b.Uint64() < uint64(w) {
				return ts.BVConst(w, new(big.Int).Rsh(sa, uint(b.Uint64())))
			}
			if sa.Sign() < 0 {
				return ts.BVConst(w, big.NewInt(-1))
			}
			return ts.BVInt(w, 0)
		case "bvudiv":
			if b.Sign() != 0 {
				return ts.BVConst(w, new(big.Int).Quo(a, b))
			}
		case "bvurem":
			if b.Sign() != 0 {
				return ts.BVConst(w, new(big.Int).Rem(a, b))
			}
		case "bvsdiv": // Go and SMT-LIB both truncate toward zero
			if b.Sign() != 0 {
				return ts.BVConst(w, new(big.Int).Quo(signed(w, a), signed(w, b)))
			}
		case "bvsrem": // sign follows the dividend in both
			if b.Sign() != 0 {
				return ts.BVConst(w, new(big.Int).Rem(signed(w, a), signed(w, b)))
			}
		}
	}
	return ts.mk(sort, op, nil, "", args...)
}

func (ts *TermStore) Not(a *Term) *Term       { return ts.App(BoolSort, "not", a) }
func (ts *TermStore) And(a ...*Term) *Term    { return ts.App(BoolSort, "and", a...) }
func (ts *TermStore) Or(a ...*Term) *Term     { return ts.App(BoolSort, "or", a...) }
func (ts *TermStore) Eq(a, b *Term) *Term     { return ts.App(BoolSort, "=", a, b) }
func (ts *TermStore) Ite(c, a, b *Term) *Term { return ts.App(a.sort, "ite", c, a, b) }

// Extract / extend helpers
func (ts *TermStore) Extract(hi, lo int, a *Term) *Term {
	if a.IsConst() {
		v := new(big.Int).Rsh(a.cv, uint(lo))
		return ts.BVConst(hi-lo+1, v)
	}
	return ts.mk(BV(hi-lo+1), fmt.Sprintf("(_ extract %d %d)", hi, lo), nil, "", a)
}
func (ts *TermStore) ZeroExt(to int, a *Term) *Term {
	if a.sort.W == to {
		return a
	}
	if a.IsConst() {
		return ts.BVConst(to, a.cv)
	}
	return ts.mk(BV(to), fmt.Sprintf("(_ zero_extend %d)", to-a.sort.W), nil, "", a)
}
func (ts *TermStore) SignExt(to int, a *Term) *Term {
	if a.sort.W == to {
		return a
	}
	if a.IsConst() {
		return ts.BVConst(to, signed(a.sort.W, a.cv))
	}
	return ts.mk(BV(to), fmt.Sprintf("(_ sign_extend %d)", to-a.sort.W), nil, "", a)
}

// ---------- SMT-LIB emission ----------

func (t *Term) ref() string {
	switch t.op {
	case "const":
		switch t.sort.K {
		case SBool:
			if t.boolVal() {
				return "true"
			}
			return "false"
		case SBV:
			return fmt.Sprintf("(_ bv%s %d)", t.cv.String(), t.sort.W)
		case SFP:
			tot := t.sort.EB + t.sort.SB
			s := fmt.Sprintf("%0*b", tot, t.cv)
			return fmt.Sprintf("(fp #b%s #b%s #b%s)", s[:1], s[1:1+t.sort.EB], s[1+t.sort.EB:])
		}
	case "var":
		return t.name
	}
	return fmt.Sprintf("t%d", t.id)
}

func (t *Term) def() string {
	if t.op == "var" {
		return fmt.Sprintf("(declare-const %s %s)", t.name, t.sort)
	}
	var sb strings.Builder
	fmt.Fprintf(&sb, "(define-fun t%d () %s (%s", t.id, t.sort, t.op)
	for _, a := range t.args {
		sb.WriteByte(' ')
		sb.WriteString(a.ref())
	}
	sb.WriteString("))")
	return sb.String()
}

func pow2(k int) *big.Int { return new(big.Int).Lsh(big.NewInt(1), uint(k)) }
