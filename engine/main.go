package main

import (
	"encoding/json"
	"flag"
	"fmt"
	"go/ast"
	"hash/fnv"
	"math/rand"
	"os"
	"path/filepath"
	"regexp"
	"runtime/debug"
	"sort"
	"strconv"
	"strings"
	"sync"
	"time"

	"golang.org/x/tools/go/packages"
	"golang.org/x/tools/go/ssa"
	"golang.org/x/tools/go/ssa/ssautil"
)

const repoDir = "/repo"

var verifDir = "/verif"

type harnessCfg struct {
	Name      string
	Overrides map[string]string
	Preempt   int
	Known     string // known-finding id this harness demonstrates (expected to fail while open)
	MaxSteps  int
	MaxPaths  int
	Thorough  bool   // only run in the thorough tier
	NoNative  bool   // counterexamples are confirmed by concrete re-execution of the SSA only
	NoCross   bool   // thorough tier: do not cross-check every z3 answer on cvc5 (measured not to finish)
	NoWitness string // reason why complete-path witnesses cannot be run natively (engine-level library models)
	Bounds    string
}

type harnessResult struct {
	Cfg            harnessCfg
	Paths          int
	PathsAsserting int
	Asserts        int
	Discharged     int
	Trivial        int
	Unknown        int
	Aborts         int
	Blocked        int
	Z3Q, CvcQ      int
	Z3T, CvcT      time.Duration
	MaxQ           time.Duration
	Fallback       int
	Disagree       int
	Terms          int
	Wall           time.Duration
	Funcs          []string
	Models         []string
	Assumps        []string
	Notes          []string
	Samples        []string
	Sites          map[string]int
	StaticSites    []string
	Violations     []*Violation
	Replays        []replayOutcome
	Finished       int        // paths on which the harness ran to its end
	Witnesses      []*witness // sampled complete paths with a solver model (see witness.go)
	WitnessNote    string
}

type replayOutcome struct {
	File   string
	Kind   string // native | ssa-concrete
	Result string // confirmed | not-reproduced | error
	Msg    string
	Detail string
}

type knownFinding struct {
	ID       string `json:"id"`
	Property string `json:"property"`
	Status   string `json:"status"` // open | fixed
	What     string `json:"what"`
	Commit   string `json:"commit,omitempty"`
}

func main() {
	prop := flag.String("prop", "", "property id (e.g. C04)")
	tier := flag.String("tier", "quick", "quick|thorough")
	only := flag.String("harness", "", "substring filter on harness names")
	mut := flag.String("mut", "", "overlay mutation file:::old:::new (self-test; /repo untouched)")
	list := flag.Bool("list", false, "list harnesses")
	verbose := flag.Bool("v", false, "verbose")
	noReplay := flag.Bool("noreplay", false, "skip native replay (self-test speed)")
	par := flag.Int("j", 12, "parallel harnesses")
	replayFile := flag.String("replay", "", "re-run a stored replay file natively")
	flag.Parse()
	if d := os.Getenv("VERIF_DIR"); d != "" {
		verifDir = d
	}
	if t := os.Getenv("VERIF_TIER"); t != "" && *tier == "" {
		*tier = t
	}
	seed := 0
	if s := os.Getenv("VERIF_SEED"); s != "" {
		seed, _ = strconv.Atoi(s)
	}
	witnessSeed = int64(seed)
	debug.SetGCPercent(800)
	os.Setenv("PATH", filepath.Join(verifDir, "bin", "goshim")+":"+os.Getenv("PATH"))
	start := time.Now()

	if *replayFile != "" {
		os.Exit(replayStored(*replayFile))
	}

	mutationSpec = *mut
	overlay, mutated, err := buildOverlay(*mut)
	if err != nil {
		fmt.Println("INCONCLUSIVE:", err)
		os.Exit(2)
	}
	cfg := &packages.Config{
		Mode:       packages.LoadAllSyntax,
		Dir:        repoDir,
		Overlay:    overlay,
		BuildFlags: []string{"-tags=verif"},
		Env:        goEnv(),
	}
	pkgs, err := packages.Load(cfg, ".")
	if err != nil {
		fmt.Println("INCONCLUSIVE: load failed:", err)
		os.Exit(2)
	}
	if packages.PrintErrors(pkgs) > 0 {
		fmt.Println("INCONCLUSIVE: /repo + harness does not type-check")
		os.Exit(2)
	}
	prog, ssapkgs := ssautil.AllPackages(pkgs, ssa.InstantiateGenerics)
	prog.Build()
	pkg := ssapkgs[0]
	loadT := time.Since(start)

	cfgs := harnessConfigs(pkgs[0], pkg)
	var sel []harnessCfg
	pre := regexp.MustCompile(`^HS?_` + regexp.QuoteMeta(*prop) + `_`)
	for _, c := range cfgs {
		if *prop != "" && !pre.MatchString(c.Name) {
			continue
		}
		if *only != "" && !strings.Contains(c.Name, *only) {
			continue
		}
		if c.Thorough && *tier != "thorough" {
			continue
		}
		sel = append(sel, c)
	}
	if *list {
		for _, c := range sel {
			fmt.Printf("%s preempt=%d known=%q overrides=%d\n", c.Name, c.Preempt, c.Known, len(c.Overrides))
		}
		return
	}
	if len(sel) == 0 {
		fmt.Printf("INCONCLUSIVE: no harness for property %q\n", *prop)
		os.Exit(2)
	}

	// Self-test runs (-mut: an overlay mutant of /repo) never write into /verif/evidence or
	// /verif/replays: those describe the real tree only.
	outDir := verifDir
	if *mut != "" || os.Getenv("VERIF_SELFTEST_OUT") != "" { // also: runs against a deliberately patched /repo (tools/try_patch.sh)
		if d := os.Getenv("VERIF_SELFTEST_OUT"); d != "" {
			outDir = d
		} else {
			d, err := os.MkdirTemp("", "vpselftest")
			if err != nil {
				fmt.Println("INCONCLUSIVE:", err)
				os.Exit(2)
			}
			outDir = d
			defer os.RemoveAll(d)
		}
	}
	known := loadKnown()
	results := make([]*harnessResult, len(sel))
	var wg sync.WaitGroup
	sem := make(chan struct{}, *par)
	for i, c := range sel {
		wg.Add(1)
		go func(i int, c harnessCfg) {
			defer wg.Done()
			sem <- struct{}{}
			defer func() { <-sem }()
			results[i] = runHarness(prog, pkg, c, *tier == "thorough", nil)
		}(i, c)
	}
	wg.Wait()

	// ---- verdicts ----
	exit := 0
	inconclusive := false
	nViol := 0
	var lines []string
	replayN := 0
	for _, r := range results {
		c := r.Cfg
		if *verbose || r.Aborts > 0 || r.Unknown > 0 {
			fmt.Printf("== %s: paths=%d obligations=%d discharged=%d trivial=%d violations=%d unknown=%d aborts=%d blocked=%d z3=%d(%v) cvc5=%d(%v) maxq=%v wall=%v\n",
				c.Name, r.Paths, r.Asserts, r.Discharged, r.Trivial, len(r.Violations), r.Unknown, r.Aborts, r.Blocked, r.Z3Q, r.Z3T.Round(time.Millisecond), r.CvcQ, r.CvcT.Round(time.Millisecond), r.MaxQ.Round(time.Millisecond), r.Wall.Round(time.Millisecond))
			for _, n := range r.Notes {
				fmt.Println("     ", n)
			}
		}
		isKnown := false
		if c.Known != "" {
			if k, ok := known[c.Known]; ok && k.Status == "open" {
				isKnown = true
			}
		}
		if r.Aborts > 0 || r.Unknown > 0 || r.Disagree > 0 {
			inconclusive = true
			fmt.Printf("INCONCLUSIVE harness=%s aborts=%d unknown=%d disagreements=%d\n", c.Name, r.Aborts, r.Unknown, r.Disagree)
		}
		// vacuity: every static assert site of the harness function must have been reached
		for _, s := range r.StaticSites {
			if r.Sites[s] == 0 && len(r.Violations) == 0 && r.Aborts == 0 {
				inconclusive = true
				fmt.Printf("INCONCLUSIVE harness=%s vacuous: assertion at %s never reached\n", c.Name, s)
			}
		}
		if isKnown {
			if len(r.Violations) > 0 {
				k := known[c.Known]
				fmt.Printf("KNOWN-FINDING: property=%s %s [%s; demonstrated by %s: %s]\n", k.Property, k.What, k.ID, c.Name, r.Violations[0].Msg)
			}
			continue
		}
		for _, v := range r.Violations {
			replayN++
			file := filepath.Join(outDir, "replays", fmt.Sprintf("%s-%s-%d.json", *prop, c.Name, replayN))
			out := confirm(prog, pkg, c, v, file, *prop, overlay, mutated, *noReplay, *tier == "thorough")
			r.Replays = append(r.Replays, out)
			switch out.Result {
			case "confirmed":
				nViol++
				exit = 1
				lines = append(lines, fmt.Sprintf("VIOLATION property=%s replay=%s", *prop, file))
				fmt.Printf("  counterexample (%s, %s replay confirmed): %s\n", c.Name, out.Kind, v.Msg)
			default:
				inconclusive = true
				fmt.Printf("INCONCLUSIVE harness=%s counterexample not reproduced (%s): %s [%s]\n", c.Name, out.Kind, v.Msg, out.Detail)
			}
		}
	}
	// ---- C27 static side condition: output call sites in the package that no harness reached ----
	if *prop == "C27" {
		reached := map[string]bool{}
		for _, r := range results {
			for _, v := range r.Violations {
				if v.Kind == "FORBIDDEN" {
					reached[v.Msg] = true
				}
			}
		}
		for _, site := range forbiddenCallSites(prog, pkg) {
			hit := false
			for m := range reached {
				if strings.Contains(m, site.pos) {
					hit = true
				}
			}
			if !hit {
				inconclusive = true
				fmt.Printf("INCONCLUSIVE C27: the package calls %s at %s (in %s) and no C27 harness reaches that call\n", site.callee, site.pos, site.fn)
			}
		}
	}
	// ---- witness validation: sampled complete paths executed against the native build ----
	witT := time.Now()
	natOK, ssaOK, problems := validateWitnesses(prog, pkg, results, overlay, mutated, known, *noReplay)
	for _, p := range problems {
		inconclusive = true
		fmt.Println("INCONCLUSIVE encoding-vs-implementation mismatch:", p)
	}
	if *verbose {
		fmt.Printf("witnesses: native agree=%d ssa-concrete agree=%d (of which %d after the native scheduler took another interleaving) problems=%d (%.1fs)\n", natOK, ssaOK, len(scheduleNotes), len(problems), time.Since(witT).Seconds())
	}
	for _, l := range lines {
		fmt.Println(l)
	}
	wall := time.Since(start)
	if err := writeEvidence(outDir, *prop, *tier, seed, results, loadT, wall, nViol, natOK, ssaOK, time.Since(witT)); err != nil {
		fmt.Println("INCONCLUSIVE: cannot write evidence:", err)
		os.Exit(2)
	}
	tot := struct{ p, a, d, sv int }{}
	for _, r := range results {
		tot.p += r.Paths
		tot.a += r.Asserts + r.Trivial
		tot.d += r.Discharged + r.Trivial
		tot.sv += r.Discharged
	}
	fmt.Printf("property=%s tier=%s harnesses=%d paths=%d obligations=%d discharged=%d (by solver verdict: %d, by constant folding on the forked path: %d) witness_paths_agreeing_natively=%d violations=%d wall=%.1fs (bounded symbolic check; bounds in evidence/%s.json)\n",
		*prop, *tier, len(results), tot.p, tot.a, tot.d, tot.sv, tot.d-tot.sv, natOK, nViol, wall.Seconds(), *prop)
	if exit == 0 && inconclusive {
		exit = 2
	}
	if *mut != "" && os.Getenv("VERIF_SELFTEST_OUT") == "" {
		os.RemoveAll(outDir)
	}
	os.Exit(exit)
}

func goEnv() []string {
	env := os.Environ()
	shim := filepath.Join(verifDir, "bin", "goshim")
	out := []string{}
	for _, kv := range env {
		if strings.HasPrefix(kv, "PATH=") {
			kv = "PATH=" + shim + ":" + kv[5:]
		}
		if strings.HasPrefix(kv, "GOFLAGS=") || strings.HasPrefix(kv, "GOTOOLCHAIN=") || strings.HasPrefix(kv, "GOPROXY=") || strings.HasPrefix(kv, "GOSUMDB=") {
			continue
		}
		out = append(out, kv)
	}
	return append(out, "GOFLAGS=-mod=mod", "GOPROXY=off", "GOTOOLCHAIN=local", "GONOSUMDB=*", "GONOSUMCHECK=1", "GOFLAGS=-mod=mod")
}

// buildOverlay maps every /verif/harness/*.go to a virtual /repo/zz_verif_*.go file.
func buildOverlay(mut string) (map[string][]byte, map[string][]byte, error) {
	ov := map[string][]byte{}
	files, _ := filepath.Glob(filepath.Join(verifDir, "harness", "*.go"))
	if len(files) == 0 {
		return nil, nil, fmt.Errorf("no harness files under %s/harness", verifDir)
	}
	for _, f := range files {
		if strings.HasSuffix(f, "_test.go") {
			continue
		}
		src, err := os.ReadFile(f)
		if err != nil {
			return nil, nil, err
		}
		ov[filepath.Join(repoDir, "zz_verif_"+filepath.Base(f))] = src
	}
	mutated := map[string][]byte{}
	if strings.HasPrefix(mut, "dir:") { // a patched copy of /repo: every non-test source that differs is overlaid
		dir := strings.TrimPrefix(mut, "dir:")
		srcs, _ := filepath.Glob(filepath.Join(dir, "*.go"))
		for _, f := range srcs {
			if strings.HasSuffix(f, "_test.go") || strings.HasPrefix(filepath.Base(f), "zz_") {
				continue
			}
			m, err := os.ReadFile(f)
			if err != nil {
				return nil, nil, err
			}
			orig, _ := os.ReadFile(filepath.Join(repoDir, filepath.Base(f)))
			if string(orig) != string(m) {
				ov[filepath.Join(repoDir, filepath.Base(f))] = m
				mutated[filepath.Join(repoDir, filepath.Base(f))] = m
			}
		}
		if len(mutated) == 0 {
			return nil, nil, fmt.Errorf("-mut dir: no file differs from %s", repoDir)
		}
	} else if mut != "" { // file:::old:::new  (overlay mutation, /repo untouched)
		parts := strings.Split(mut, ":::")
		if len(parts) != 3 {
			return nil, nil, fmt.Errorf("bad -mut")
		}
		orig, err := os.ReadFile(filepath.Join(repoDir, parts[0]))
		if err != nil {
			return nil, nil, err
		}
		if !strings.Contains(string(orig), parts[1]) {
			return nil, nil, fmt.Errorf("mutation pattern not found in %s", parts[0])
		}
		m := []byte(strings.Replace(string(orig), parts[1], parts[2], 1))
		ov[filepath.Join(repoDir, parts[0])] = m
		mutated[filepath.Join(repoDir, parts[0])] = m
	}
	return ov, mutated, nil
}

var directiveRe = regexp.MustCompile(`^//vp:(\w+)\s*(.*)$`)

func harnessConfigs(p *packages.Package, pkg *ssa.Package) []harnessCfg {
	var out []harnessCfg
	for _, f := range p.Syntax {
		for _, d := range f.Decls {
			fd, ok := d.(*ast.FuncDecl)
			if !ok || fd.Recv != nil {
				continue
			}
			n := fd.Name.Name
			if !strings.HasPrefix(n, "H_") && !strings.HasPrefix(n, "HS_") {
				continue
			}
			c := harnessCfg{Name: n, Overrides: map[string]string{}, NoNative: strings.HasPrefix(n, "HS_")}
			if fd.Doc != nil {
				for _, cm := range fd.Doc.List {
					m := directiveRe.FindStringSubmatch(strings.TrimSpace(cm.Text))
					if m == nil {
						continue
					}
					arg := strings.TrimSpace(m[2])
					switch m[1] {
					case "override":
						kv := strings.SplitN(arg, "=", 2)
						if len(kv) == 2 {
							c.Overrides[expandName(strings.TrimSpace(kv[0]))] = strings.TrimSpace(kv[1])
						}
					case "preempt":
						c.Preempt, _ = strconv.Atoi(arg)
					case "known":
						c.Known = arg
					case "maxsteps":
						c.MaxSteps, _ = strconv.Atoi(arg)
					case "maxpaths":
						c.MaxPaths, _ = strconv.Atoi(arg)
					case "thorough":
						c.Thorough = true
					case "nonative":
						c.NoNative = true
					case "nocross":
						c.NoCross = true
					case "nowitness":
						c.NoWitness = arg
					case "bounds":
						c.Bounds = arg
					}
				}
			}
			out = append(out, c)
		}
	}
	sort.Slice(out, func(i, j int) bool { return out[i].Name < out[j].Name })
	return out
}

// expandName lets directives abbreviate the package path as "bs".
func expandName(n string) string {
	return strings.ReplaceAll(n, "bs.", "github.com/danthegoodman1/bloomsearch.")
}

var witnessSeed int64
var mutationSpec string

func runHarness(prog *ssa.Program, pkg *ssa.Package, c harnessCfg, thorough bool, fixed []ReplayVal) *harnessResult {
	ts := NewTermStore()
	soft := 2500
	softC := 60000
	if thorough {
		softC = 180000
	}
	sol, err := NewPortfolio(soft, softC, thorough && fixed == nil && !c.NoCross)
	if err != nil {
		panic(err)
	}
	defer sol.Close()
	e := &Engine{ts: ts, sol: sol, prog: prog, pkg: pkg, FuncsSeen: map[string]bool{}, ModelsUsed: map[string]bool{},
		Assumptions: map[string]bool{}, AssertSites: map[string]int{}, MaxSteps: 4000000, MaxPaths: 200000, MaxForks: 4096,
		PreemptBound: c.Preempt, nodeByID: map[int]*PtrV{}, globals: map[*ssa.Global]*Object{}, overrides: c.Overrides,
		tierThorough: thorough, crcMemo: map[string]*Term{}, jsonMemo: map[string]*IfaceV{}, reMemo: map[string]*Term{}}
	if c.MaxSteps > 0 {
		e.MaxSteps = c.MaxSteps
	}
	if c.MaxPaths > 0 {
		e.MaxPaths = c.MaxPaths
	}
	if fixed != nil {
		e.fixedMode, e.Fixed = true, fixed
	} else {
		e.WitnessK = witnessPerHarness(thorough)
		h := fnv.New64a()
		h.Write([]byte(c.Name))
		e.witRng = rand.New(rand.NewSource(witnessSeed ^ int64(h.Sum64())))
	}
	fn := pkg.Func(c.Name)
	start := time.Now()
	e.RunHarness(fn)
	wits := e.witnessModels()
	r := &harnessResult{Cfg: c, Paths: e.Paths, PathsAsserting: e.PathsAsserting, Asserts: e.Asserts, Discharged: e.Discharged, Trivial: e.Trivial, Unknown: e.Unknown,
		Aborts: e.Aborts, Blocked: e.Blocked, Z3Q: sol.z3.Queries, CvcQ: sol.cvc.Queries, Z3T: sol.z3.Time, CvcT: sol.cvc.Time,
		Fallback: sol.Fallback, Disagree: sol.Disagree, Terms: len(ts.terms), Wall: time.Since(start),
		Funcs: sortedKeys(e.FuncsSeen), Models: sortedKeys(e.ModelsUsed), Assumps: sortedKeys(e.Assumptions), Notes: e.Notes,
		Samples: e.Samples, Sites: e.AssertSites, Violations: e.Violations, Finished: e.Finished, Witnesses: wits}
	r.MaxQ = sol.z3.MaxQ
	if sol.cvc.MaxQ > r.MaxQ {
		r.MaxQ = sol.cvc.MaxQ
	}
	r.StaticSites = staticAssertSites(e, fn)
	return r
}

// staticAssertSites lists the vpAssert call sites in the harness function itself.
func staticAssertSites(e *Engine, fn *ssa.Function) []string {
	var out []string
	for _, b := range fn.Blocks {
		for _, ins := range b.Instrs {
			if c, ok := ins.(*ssa.Call); ok {
				if f, ok := c.Call.Value.(*ssa.Function); ok && f.Name() == "vpAssert" {
					out = append(out, e.pos(c.Pos()))
				}
			}
		}
	}
	return out
}

func loadKnown() map[string]knownFinding {
	out := map[string]knownFinding{}
	b, err := os.ReadFile(filepath.Join(verifDir, "known_findings.json"))
	if err != nil {
		return out
	}
	var f struct {
		Findings []knownFinding `json:"findings"`
	}
	if json.Unmarshal(b, &f) != nil {
		return out
	}
	for _, k := range f.Findings {
		out[k.ID] = k
	}
	return out
}


type forbiddenSite struct{ callee, pos, fn string }

// forbiddenCallSites lists the static calls to output functions in /repo's own (non-harness) code.
func forbiddenCallSites(prog *ssa.Program, pkg *ssa.Package) []forbiddenSite {
	var out []forbiddenSite
	for fn := range ssautil.AllFunctions(prog) {
		if fn.Blocks == nil {
			continue
		}
		root := fn
		for root.Parent() != nil {
			root = root.Parent()
		}
		if root.Pkg != pkg && !(root.Pkg == nil && root.Origin() != nil && root.Origin().Pkg == pkg) {
			continue
		}
		file := prog.Fset.Position(fn.Pos()).Filename
		if strings.Contains(file, "zz_verif_") || strings.HasSuffix(file, "_test.go") || file == "" {
			continue
		}
		for _, b := range fn.Blocks {
			for _, ins := range b.Instrs {
				c, ok := ins.(ssa.CallInstruction)
				if !ok {
					continue
				}
				name := ""
				if callee := c.Common().StaticCallee(); callee != nil {
					name = callee.String()
				} else if bi, ok := c.Common().Value.(*ssa.Builtin); ok && (bi.Name() == "print" || bi.Name() == "println") {
					name = "builtin " + bi.Name()
				}
				if name == "" || !isForbiddenOutput(name) {
					continue
				}
				p := prog.Fset.Position(ins.Pos())
				out = append(out, forbiddenSite{name, fmt.Sprintf("%s:%d", filepath.Base(p.Filename), p.Line), fn.String()})
			}
		}
	}
	sort.Slice(out, func(i, j int) bool { return out[i].pos < out[j].pos })
	return out
}

func isForbiddenOutput(name string) bool {
	if strings.HasPrefix(name, "builtin ") {
		return true
	}
	for _, n := range []string{"fmt.Print", "fmt.Println", "fmt.Printf", "log.Print", "log.Println", "log.Printf", "log.Fatal", "log.Fatalf", "log.Fatalln", "log.Panic", "log.Panicf",
		"log/slog.Info", "log/slog.Warn", "log/slog.Error", "log/slog.Debug", "log/slog.Log", "log/slog.Default", "log/slog.InfoContext", "log/slog.WarnContext", "log/slog.ErrorContext", "log/slog.DebugContext"} {
		if name == n {
			return true
		}
	}
	return false
}
