package main

import (
	"hash/crc32"
	"fmt"
	"go/types"
	"math/big"
	"strings"

	"golang.org/x/tools/go/ssa"
)

type alt struct {
	cond *Term
	val  Value
}

// forkAlts continues st with the first feasible alternative and queues the others.
func (e *Engine) forkAlts(st *State, x ssa.Value, alts []alt) bool {
	var chosen *alt
	var rest []*alt
	for i := range alts {
		a := &alts[i]
		if a.cond.IsConst() {
			if !a.cond.boolVal() {
				continue
			}
		} else if e.check(st.pc, a.cond) != "sat" {
			continue
		}
		if chosen == nil {
			chosen = a
		} else {
			rest = append(rest, a)
		}
	}
	if chosen == nil {
		return false
	}
	for _, a := range rest {
		c := st.clone()
		c.addPC(a.cond)
		if x != nil {
			c.fr.env[x] = a.val
		}
		e.work = append(e.work, c)
	}
	st.addPC(chosen.cond)
	if x != nil {
		st.fr.env[x] = chosen.val
	}
	return true
}

// execFromSSA says whether a function outside the package under test may be executed from its
// SSA body (small pure library code). Everything else must have a model or the run aborts.
var ssaAllowedPkgs = map[string]bool{
	"encoding/binary": true, "slices": true, "cmp": true, "maps": true, "iter": true,
	"unicode/utf8": true, "math/bits": true, "errors": false,
}

var ssaAllowedFuncs = map[string]bool{
	"io.ReadFull": true, "io.ReadAtLeast": true,
	"context.Background": true, "context.TODO": true,
	"(context.backgroundCtx).Done": true, "(context.backgroundCtx).Err": true, "(context.backgroundCtx).Value": true, "(context.backgroundCtx).Deadline": true,
	"(context.emptyCtx).Done": true, "(context.emptyCtx).Err": true, "(context.emptyCtx).Value": true, "(context.emptyCtx).Deadline": true,
	"(context.backgroundCtx).String":             true,
	"(github.com/tidwall/gjson.Result).IsObject": true, "(github.com/tidwall/gjson.Result).IsArray": true,
	"(github.com/tidwall/gjson.Result).Exists": true,
	"strings.HasPrefix":                        true, "strings.HasSuffix": true, "strings.TrimSuffix": true, "strings.TrimPrefix": true,
	"math.Abs":             false,
	"(*sync.WaitGroup).Go": true,
}

func (e *Engine) mayExec(fn *ssa.Function) bool {
	if fn.Pkg == e.pkg {
		return true
	}
	p := fn.Pkg
	if p == nil && fn.Origin() != nil {
		p = fn.Origin().Pkg
	}
	if p == nil && fn.Parent() != nil { // closure
		par := fn.Parent()
		for par.Parent() != nil {
			par = par.Parent()
		}
		return e.mayExec(par)
	}
	if p == e.pkg {
		return true
	}
	if p != nil && ssaAllowedPkgs[p.Pkg.Path()] {
		return true
	}
	name := fn.String()
	if ssaAllowedFuncs[name] {
		return true
	}
	// wrappers and bound methods synthesised by go/ssa around package functions
	if fn.Synthetic != "" && p == nil {
		return true
	}
	return false
}

func (e *Engine) newNondet(st *State, kind string, sort Sort) *Term {
	v := e.ts.Var(kind, sort)
	st.nondets = append(st.nondets, NondetRec{Kind: kind, T: v})
	if e.fixedMode {
		e.applyFixed(st, len(st.nondets)-1)
	}
	return v
}

// applyFixed pins nondet #i to the recorded counterexample value (concrete re-execution).
func (e *Engine) applyFixed(st *State, i int) {
	if i >= len(e.Fixed) {
		return
	}
	n := st.nondets[i]
	v, ok := new(big.Int).SetString(e.Fixed[i].V, 10)
	if !ok {
		return
	}
	var c *Term
	if n.T.sort.K == SBool {
		c = e.ts.Bool(v.Sign() != 0)
	} else {
		c = e.ts.BVConst(n.T.sort.W, v)
	}
	st.addPC(e.ts.Eq(n.T, c))
	if n.Kind == "bytes" {
		for j, b := range e.Fixed[i].B {
			st.addPC(e.ts.Eq(e.ts.App(BV(8), "select", n.Arr, e.ts.BVInt(64, int64(j))), e.ts.BVInt(8, int64(b))))
		}
	}
}

func (e *Engine) callFn(st *State, x *ssa.Call, fn *ssa.Function, bind []Value, args []Value) bool {
	ts := e.ts
	fr := st.fr
	set := func(v Value) {
		if x != nil {
			fr.env[x] = v
		}
	}
	var xv ssa.Value
	if x != nil {
		xv = x
	}
	name := fn.String()
	short := fn.Name()

	// 1. harness intercepts
	if fn.Pkg == e.pkg && (strings.HasPrefix(short, "nondet") || strings.HasPrefix(short, "vp")) {
		switch short {
		case "nondetInt64", "nondetInt":
			set(e.newNondet(st, "i64", BV(64)))
			return true
		case "nondetUint64":
			set(e.newNondet(st, "i64", BV(64)))
			return true
		case "nondetInt32", "nondetUint32":
			set(e.newNondet(st, "u32", BV(32)))
			return true
		case "nondetInt16", "nondetUint16":
			set(e.newNondet(st, "u16", BV(16)))
			return true
		case "nondetInt8", "nondetUint8", "nondetU8":
			set(e.newNondet(st, "u8", BV(8)))
			return true
		case "nondetFloat64":
			bits := e.newNondet(st, "f64", BV(64))
			set(ts.App(F64, "(_ to_fp 11 53)", bits))
			return true
		case "nondetFloat32":
			bits := e.newNondet(st, "f32", BV(32))
			set(ts.App(F32, "(_ to_fp 8 24)", bits))
			return true
		case "nondetBool":
			set(e.newNondet(st, "bool", BoolSort))
			return true
		case "nondetChoice":
			n, ok := concreteInt(args[0].(*Term))
			if !ok || n <= 0 {
				e.abort("nondetChoice needs concrete n")
			}
			v := e.newNondet(st, "i64", BV(64))
			return e.forkRange(st, x, v, n, func(s *State, i int) Value { return ts.BVInt(64, int64(i)) })
		case "nondetSymBytes":
			arr := ts.Var("arr", ArrSort)
			ln := ts.Var("len", BV(64))
			st.nondets = append(st.nondets, NondetRec{Kind: "bytes", T: ln, Arr: arr})
			if e.fixedMode {
				e.applyFixed(st, len(st.nondets)-1)
			}
			// lengths are non-negative ints below 2^62
			st.addPC(ts.App(BoolSort, "bvult", ln, ts.BVConst(64, new(big.Int).Lsh(big.NewInt(1), 62))))
			o := e.newObj(st, nil, &SymBytesV{Arr: arr, Len: ln})
			set(&SliceV{Obj: o, Off: ts.BVInt(64, 0), Len: ln, Cap: ln})
			return true
		case "nondetString", "nondetBytes":
			mx := e.mustInt(st, args[0], "nondetString max")
			ln := e.newNondet(st, "i64", BV(64))
			isBytes := short == "nondetBytes"
			return e.forkRange(st, x, ln, mx+1, func(s *State, l int) Value {
				sv := &StrV{}
				for i := 0; i < l; i++ {
					sv.B = append(sv.B, e.newNondet(s, "u8", BV(8)))
				}
				if isBytes {
					elems := make([]Value, len(sv.B))
					for i, b := range sv.B {
						elems[i] = b
					}
					return e.mkSlice(s, elems)
				}
				return sv
			})
		case "vpAssume":
			return e.assume(st, args[0].(*Term))
		case "vpAssert":
			c := args[0].(*Term)
			msg := "assertion"
			if len(args) > 1 {
				if s, ok := strConcrete(args[1].(*StrV)); ok {
					msg = s
				}
			}
			where := e.pos(x.Pos())
			e.AssertSites[where]++
			st.sawAssert = true
			st.asserts = append(st.asserts, msg)
			if c.IsConst() {
				if !c.boolVal() {
					e.Asserts++
					e.violation(st, "ASSERT", msg+" at "+where)
					return false
				}
				e.Trivial++
				return true
			}
			e.Asserts++
			r := e.check(st.pc, ts.Not(c))
			switch r {
			case "unsat":
				e.Discharged++
				e.sample(st, "assert \""+msg+"\" at "+where)
			case "sat":
				neg := st.clone()
				neg.addPC(ts.Not(c))
				e.violation(neg, "ASSERT", msg+" at "+where)
			default:
				e.Unknown++
				e.note("UNKNOWN solver result on assert %s: %s", where, r)
			}
			return e.assume(st, c)
		case "vpOr":
			set(ts.Or(args[0].(*Term), args[1].(*Term)))
			return true
		case "vpAnd":
			set(ts.And(args[0].(*Term), args[1].(*Term)))
			return true
		case "vpImplies":
			set(ts.Or(ts.Not(args[0].(*Term)), args[1].(*Term)))
			return true
		case "vpThorough":
			set(ts.Bool(e.tierThorough))
			return true
		case "vpBound":
			if e.tierThorough {
				set(args[1])
			} else {
				set(args[0])
			}
			return true
		case "vpSymbolic":
			set(ts.Bool(true))
			return true
		case "vpNote":
			return true
		case "vpYield":
			return true
		case "vpMustBlock":
			st.syncInt["mustBlock"] = 1
			return true
		case "vpMustBlockEnd":
			if st.syncInt["mustBlock"] == 1 {
				e.violation(st, "ASSERT", "operation expected to block returned at "+e.pos(x.Pos()))
				return false
			}
			return true
		case "vpBlockedOK":
			st.syncInt["blockedOK"] = 1
			return true
		case "vpForbidden":
			msg, _ := strConcrete(args[0].(*StrV))
			e.violation(st, "FORBIDDEN", "output through "+msg+" at "+e.pos(x.Pos()))
			return false
		case "vpUnmodelled":
			msg, _ := strConcrete(args[0].(*StrV))
			e.abort("UNMODELLED (harness model) " + msg)
			return false
		case "vpSetClock":
			st.syncInt["clock"] = e.mustInt(st, args[0], "clock mode")
			return true
		case "vpQuiesce":
			// blocks until every other goroutine is blocked or has finished (see switchThread)
			if st.syncInt["quiesced"] == st.cur+1 {
				st.syncInt["quiesced"] = 0
				return true
			}
			st.syncInt["quiesceWait"] = st.cur + 1
			st.fr.ip--
			st.blockedNow = true
			return true
		case "vpLiveGoroutines":
			n := 0
			for ti, t := range st.threads {
				if ti != st.cur && !t.done {
					n++
				}
			}
			set(ts.BVInt(64, int64(n)))
			return true
		case "vpSameBacking":
			a, b := args[0].(*SliceV), args[1].(*SliceV)
			set(ts.Bool(a.Obj != nil && a.Obj == b.Obj))
			return true
		case "vpStrSharesBytes":
			set(ts.Bool(false)) // strings are value copies in the encoding; unsafe views are tracked separately
			return true
		case "vpMaxAllocSize":
			if st.maxAlloc == nil {
				set(ts.BVInt(64, 0))
			} else {
				set(st.maxAlloc)
			}
			return true
		case "vpFixCRC", "vpIdentityBytes":
			set(args[0])
			return true
		}
		if m, ok := harnessModels[short]; ok {
			return m(e, st, x, args)
		}
	}

	// 2. overrides
	if ov, ok := e.overrides[name]; ok {
		target := e.pkg.Func(ov)
		if target == nil {
			e.abort("override target %s not found", ov)
		}
		e.ModelsUsed["override:"+name+"=>"+ov] = true
		e.enter(st, target, args, nil, xv)
		return true
	}

	// 3a. library models written in harness Go take precedence over the engine's own models:
	// vpModel_<pkg>_<Func> for package functions, vpModelM_<pkg>_<Type>_<Method> for methods
	// (same signature, receiver first). Natively the real library code runs.
	mpkg, mshort := fn.Pkg, short
	if o := fn.Origin(); o != nil && o != fn { // an instantiation of a generic library function: modelled at one concrete type
		mpkg, mshort = o.Pkg, o.Name()
	}
	if mpkg != nil && mpkg != e.pkg {
		rep := strings.NewReplacer("/", "_", ".", "_")
		mn := ""
		if recv := fn.Signature.Recv(); recv == nil {
			mn = "vpModel_" + rep.Replace(mpkg.Pkg.Path()) + "_" + mshort
		} else {
			rt := recv.Type()
			if pt, ok := rt.(*types.Pointer); ok {
				rt = pt.Elem()
			}
			if nt, ok := rt.(*types.Named); ok {
				mn = "vpModelM_" + rep.Replace(fn.Pkg.Pkg.Path()) + "_" + nt.Obj().Name() + "_" + short
			}
		}
		if mn != "" {
			if target := e.pkg.Func(mn); target != nil {
				e.ModelsUsed[name+" (harness Go model "+mn+")"] = true
				e.enter(st, target, args, nil, xv)
				return true
			}
		}
	}

	// 3. models
	if m, ok := models[name]; ok {
		e.ModelsUsed[name] = true
		return m(e, st, x, args)
	}
	if fn.Pkg != e.pkg && short == "init" && len(args) == 0 {
		return true // foreign package initialisers are not run (§2.2)
	}
	if strings.HasPrefix(name, "(*log/slog.Logger).") {
		e.ModelsUsed["log/slog.Logger.* (no-op)"] = true
		if short == "Enabled" { // the default logger discards everything (C27); debug-only summaries are skipped
			setRes(st, x, e.ts.Bool(false))
		}
		return true
	}

	// 4. SSA
	if !e.mayExec(fn) {
		e.abort("UNMODELLED call to %s", name)
	}
	e.enter(st, fn, args, bind, xv)
	return true
}

// forkRange continues one state per feasible value i in [0,n) of v (no re-execution: the
// instruction has already created its nondet). mk builds the instruction's result in that state.
func (e *Engine) forkRange(st *State, x *ssa.Call, v *Term, n int, mk func(s *State, i int) Value) bool {
	ts := e.ts
	first := -1
	var rest []int
	fresh := v.op == "var" && v.minVar > st.pcMaxVar
	for i := 0; i < n; i++ {
		if fresh || e.check(st.pc, ts.Eq(v, ts.BVInt(64, int64(i)))) == "sat" {
			if first < 0 {
				first = i
			} else {
				rest = append(rest, i)
			}
		}
	}
	if first < 0 {
		return false
	}
	for _, i := range rest {
		c := st.clone()
		c.addPC(ts.Eq(v, ts.BVInt(64, int64(i))))
		val := mk(c, i)
		if x != nil {
			c.fr.env[x] = val
		}
		e.work = append(e.work, c)
	}
	st.addPC(ts.Eq(v, ts.BVInt(64, int64(first))))
	val := mk(st, first)
	if x != nil {
		st.fr.env[x] = val
	}
	return true
}

type modelFn func(e *Engine, st *State, x *ssa.Call, args []Value) bool

var models = map[string]modelFn{}
var harnessModels = map[string]modelFn{}

func setRes(st *State, x *ssa.Call, v Value) {
	if x != nil {
		st.fr.env[x] = v
	}
}

func nilErr() *IfaceV { return &IfaceV{} }

func newErr(msg string, wraps ...Value) *IfaceV {
	return &IfaceV{T: errT, V: &ErrV{Msg: msg, Wraps: wraps}}
}

// errChain reports whether target is reachable from err through Wraps.
func errIs(err, target Value) bool {
	ei, ok := err.(*IfaceV)
	if !ok || ei.T == nil {
		ti, ok2 := target.(*IfaceV)
		return ok2 && ti.T == nil && (!ok || ei.T == nil)
	}
	ti, _ := target.(*IfaceV)
	if ti == nil || ti.T == nil {
		return false
	}
	if ei.V == ti.V {
		return true
	}
	if ev, ok := ei.V.(*ErrV); ok {
		for _, w := range ev.Wraps {
			if errIs(w, target) {
				return true
			}
		}
	}
	return false
}

func init() {
	models["errors.New"] = func(e *Engine, st *State, x *ssa.Call, args []Value) bool {
		msg, _ := strConcrete(args[0].(*StrV))
		setRes(st, x, newErr(msg))
		return true
	}
	models["fmt.Errorf"] = func(e *Engine, st *State, x *ssa.Call, args []Value) bool {
		msg, _ := strConcrete(args[0].(*StrV))
		var wraps []Value
		if strings.Contains(msg, "%w") {
			for _, a := range e.sliceElems(st, args[1].(*SliceV)) {
				if iv, ok := a.(*IfaceV); ok && iv.T != nil {
					if inner, ok := iv.V.(*IfaceV); ok { // error stored in an `any`
						iv = inner
					}
					if _, isErr := iv.V.(*ErrV); isErr || isErrorType(iv.T) || types.Implements(iv.T, errT.Underlying().(*types.Interface)) {
						wraps = append(wraps, iv)
					}
				}
			}
		}
		setRes(st, x, newErr(msg, wraps...))
		return true
	}
	models["errors.Is"] = func(e *Engine, st *State, x *ssa.Call, args []Value) bool {
		setRes(st, x, e.ts.Bool(errIs(args[0], args[1])))
		return true
	}
	models["errors.Join"] = func(e *Engine, st *State, x *ssa.Call, args []Value) bool {
		var wraps []Value
		for _, a := range e.sliceElems(st, args[0].(*SliceV)) {
			if iv := a.(*IfaceV); iv.T != nil {
				wraps = append(wraps, iv)
			}
		}
		if len(wraps) == 0 {
			setRes(st, x, nilErr())
		} else {
			setRes(st, x, newErr("join", wraps...))
		}
		return true
	}
	models["fmt.Sprintf"] = func(e *Engine, st *State, x *ssa.Call, args []Value) bool {
		// only used for messages in the encoded code; result content is opaque but fixed
		setRes(st, x, e.strConst("<fmt>"))
		return true
	}
	models["math.Floor"] = func(e *Engine, st *State, x *ssa.Call, args []Value) bool {
		setRes(st, x, e.ts.App(F64, "fp.roundToIntegral RTN", args[0].(*Term)))
		return true
	}
	models["math.Ceil"] = func(e *Engine, st *State, x *ssa.Call, args []Value) bool {
		setRes(st, x, e.ts.App(F64, "fp.roundToIntegral RTP", args[0].(*Term)))
		return true
	}
	models["math.Trunc"] = func(e *Engine, st *State, x *ssa.Call, args []Value) bool {
		setRes(st, x, e.ts.App(F64, "fp.roundToIntegral RTZ", args[0].(*Term)))
		return true
	}
	models["math.Round"] = func(e *Engine, st *State, x *ssa.Call, args []Value) bool {
		// Go's math.Round rounds half away from zero
		setRes(st, x, e.ts.App(F64, "fp.roundToIntegral RNA", args[0].(*Term)))
		return true
	}
	models["math.IsNaN"] = func(e *Engine, st *State, x *ssa.Call, args []Value) bool {
		setRes(st, x, e.ts.App(BoolSort, "fp.isNaN", args[0].(*Term)))
		return true
	}
	models["math.IsInf"] = func(e *Engine, st *State, x *ssa.Call, args []Value) bool {
		f := args[0].(*Term)
		sign := e.concretize(st, args[1].(*Term), "IsInf sign")
		inf := e.ts.App(BoolSort, "fp.isInfinite", f)
		switch {
		case sign > 0:
			inf = e.ts.And(inf, e.ts.App(BoolSort, "fp.isPositive", f))
		case sign < 0:
			inf = e.ts.And(inf, e.ts.App(BoolSort, "fp.isNegative", f))
		}
		setRes(st, x, inf)
		return true
	}
	models["hash/crc32.MakeTable"] = func(e *Engine, st *State, x *ssa.Call, args []Value) bool {
		o := e.newObj(st, nil, &OpaqueV{Name: "crc32.Table"})
		setRes(st, x, &PtrV{Obj: o})
		return true
	}
	crc := func(e *Engine, st *State, x *ssa.Call, args []Value) bool {
		// CRC32C of concrete bytes is computed; over symbolic bytes it is an uninterpreted value
		// memoised by content: for a buffer of concrete length the key is the sequence of its
		// byte terms (so the writer's checksum and the reader's checksum of the same bytes are
		// the same value), for symbolic-length buffers the key is (object, extent, heap version).
		sl := args[len(args)-2].(*SliceV)
		if _, isT := args[len(args)-1].(*PtrV); isT {
			sl = args[len(args)-2].(*SliceV)
		}
		key := "crc:nil"
		var prev *Term
		if len(args) == 3 {
			prev = args[0].(*Term)
		}
		if sl.Obj != nil {
			if _, isArr := st.heap[sl.Obj.ID].(*ArrayV); isArr {
				if _, lenOK := concreteInt(sl.Len); lenOK {
					elems := e.sliceElems(st, sl)
					allConst := prev == nil || prev.IsConst()
					var sb strings.Builder
					sb.WriteString("crcv")
					raw := make([]byte, len(elems))
					for i, el := range elems {
						t := el.(*Term)
						fmt.Fprintf(&sb, ":%d", t.id)
						if t.IsConst() {
							raw[i] = byte(t.cv.Uint64())
						} else {
							allConst = false
						}
					}
					if allConst {
						init := uint32(0)
						if prev != nil {
							init = uint32(prev.cv.Uint64())
						}
						setRes(st, x, e.ts.BVInt(32, int64(crc32.Update(init, crc32.MakeTable(crc32.Castagnoli), raw))))
						return true
					}
					key = sb.String()
				}
			}
			if key == "crc:nil" {
				key = fmt.Sprintf("crc:%d:%d:%d:%p", sl.Obj.ID, sl.Off.id, sl.Len.id, st.heap[sl.Obj.ID])
			}
		} else if prev == nil {
			setRes(st, x, e.ts.BVInt(32, 0))
			return true
		} else {
			setRes(st, x, prev)
			return true
		}
		if prev != nil {
			key += fmt.Sprintf(":%d", prev.id)
		}
		v, ok := e.crcMemo[key]
		if !ok {
			v = e.ts.Var("crc", BV(32))
			e.crcMemo[key] = v
		}
		setRes(st, x, v)
		return true
	}
	models["hash/crc32.Checksum"] = crc
	models["hash/crc32.Update"] = crc
	models["(*bytes.Buffer).Len"] = func(e *Engine, st *State, x *ssa.Call, args []Value) bool {
		b := e.load(st, args[0].(*PtrV)).(*StructV)
		sl := b.F[0].(*SliceV)
		if sl.Obj == nil {
			setRes(st, x, e.ts.BVInt(64, 0))
		} else {
			setRes(st, x, sl.Len)
		}
		return true
	}
	models["(*bytes.Buffer).Bytes"] = func(e *Engine, st *State, x *ssa.Call, args []Value) bool {
		b := e.load(st, args[0].(*PtrV)).(*StructV)
		setRes(st, x, b.F[0])
		return true
	}
	models["(*bytes.Buffer).Reset"] = func(e *Engine, st *State, x *ssa.Call, args []Value) bool {
		p := args[0].(*PtrV)
		b := e.load(st, p).(*StructV)
		nb := &StructV{F: append([]Value(nil), b.F...)}
		nb.F[0] = &SliceV{}
		e.store(st, p, nb)
		return true
	}
	models["(*bytes.Buffer).Write"] = func(e *Engine, st *State, x *ssa.Call, args []Value) bool {
		p := args[0].(*PtrV)
		b := e.load(st, p).(*StructV)
		sl := b.F[0].(*SliceV)
		elems := e.sliceElems(st, args[1].(*SliceV))
		var old []Value
		if sl.Obj != nil {
			old = e.sliceElems(st, sl)
		}
		nb := &StructV{F: append([]Value(nil), b.F...)}
		nb.F[0] = e.mkSlice(st, append(append([]Value(nil), old...), elems...))
		e.store(st, p, nb)
		setRes(st, x, TupleV{e.ts.BVInt(64, int64(len(elems))), nilErr()})
		return true
	}
	noop := func(e *Engine, st *State, x *ssa.Call, args []Value) bool { return true }
	_ = noop

	// ---- sync ----
	models["(*sync.WaitGroup).Add"] = func(e *Engine, st *State, x *ssa.Call, args []Value) bool {
		st.syncInt["wg"+ptrKey(args[0])] += e.mustInt(st, args[1], "wg delta")
		if st.syncInt["wg"+ptrKey(args[0])] < 0 {
			e.violation(st, "PANIC", "sync: negative WaitGroup counter")
			return false
		}
		return true
	}
	models["(*sync.WaitGroup).Done"] = func(e *Engine, st *State, x *ssa.Call, args []Value) bool {
		st.syncInt["wg"+ptrKey(args[0])]--
		if st.syncInt["wg"+ptrKey(args[0])] < 0 {
			e.violation(st, "PANIC", "sync: negative WaitGroup counter")
			return false
		}
		return true
	}
	models["(*sync.WaitGroup).Wait"] = func(e *Engine, st *State, x *ssa.Call, args []Value) bool {
		if st.syncInt["wg"+ptrKey(args[0])] > 0 {
			st.fr.ip--
			st.blockedNow = true
		}
		return true
	}
	lock := func(e *Engine, st *State, x *ssa.Call, args []Value) bool {
		k := "mu" + ptrKey(args[0])
		if st.syncInt[k] != 0 {
			st.fr.ip--
			st.blockedNow = true
			return true
		}
		st.syncInt[k] = -1
		return true
	}
	unlock := func(e *Engine, st *State, x *ssa.Call, args []Value) bool {
		k := "mu" + ptrKey(args[0])
		if st.syncInt[k] != -1 {
			e.violation(st, "PANIC", "sync: unlock of unlocked mutex")
			return false
		}
		st.syncInt[k] = 0
		return true
	}
	trylock := func(e *Engine, st *State, x *ssa.Call, args []Value) bool {
		k := "mu" + ptrKey(args[0])
		if st.syncInt[k] != 0 {
			setRes(st, x, e.ts.Bool(false))
			return true
		}
		st.syncInt[k] = -1
		setRes(st, x, e.ts.Bool(true))
		return true
	}
	models["(*sync.Mutex).Lock"], models["(*sync.RWMutex).Lock"] = lock, lock
	models["(*sync.Mutex).Unlock"], models["(*sync.RWMutex).Unlock"] = unlock, unlock
	models["(*sync.Mutex).TryLock"], models["(*sync.RWMutex).TryLock"] = trylock, trylock
	models["(*sync.RWMutex).RLock"] = func(e *Engine, st *State, x *ssa.Call, args []Value) bool {
		k := "mu" + ptrKey(args[0])
		if st.syncInt[k] < 0 {
			st.fr.ip--
			st.blockedNow = true
			return true
		}
		st.syncInt[k]++
		return true
	}
	models["(*sync.RWMutex).RUnlock"] = func(e *Engine, st *State, x *ssa.Call, args []Value) bool {
		k := "mu" + ptrKey(args[0])
		if st.syncInt[k] <= 0 {
			e.violation(st, "PANIC", "sync: RUnlock of unlocked RWMutex")
			return false
		}
		st.syncInt[k]--
		return true
	}
	models["(*sync.Once).Do"] = func(e *Engine, st *State, x *ssa.Call, args []Value) bool {
		k := "once" + ptrKey(args[0])
		if st.syncInt[k] != 0 {
			return true
		}
		st.syncInt[k] = 1
		f := args[1].(*FuncV)
		e.enter(st, f.Fn, nil, f.Bind, nil)
		return true
	}
	// sync.Pool: Get returns a previously Put value (any of them) or calls New / returns nil.
	models["(*sync.Pool).Put"] = func(e *Engine, st *State, x *ssa.Call, args []Value) bool {
		k := ptrKey(args[0])
		st.pools[k] = append(st.pools[k], args[1])
		return true
	}
	models["(*sync.Pool).Get"] = func(e *Engine, st *State, x *ssa.Call, args []Value) bool {
		k := ptrKey(args[0])
		items := st.pools[k]
		if len(items) > 0 {
			// fork: take the most recent item, or behave as an empty pool (GC may drop items)
			cl := st.clone()
			cl.pools[k] = nil
			e.rewind(cl)
			e.work = append(e.work, cl)
			it := items[len(items)-1]
			st.pools[k] = append([]Value(nil), items[:len(items)-1]...)
			setRes(st, x, it)
			return true
		}
		pool := e.load(st, args[0].(*PtrV)).(*StructV)
		newF, _ := pool.F[len(pool.F)-1].(*FuncV)
		if newF == nil {
			setRes(st, x, &IfaceV{})
			return true
		}
		var xv ssa.Value
		if x != nil {
			xv = x
		}
		e.enter(st, newF.Fn, nil, newF.Bind, xv)
		return true
	}
	// atomics (sequentially consistent under the run-to-block scheduler)
	atomicLoad := func(e *Engine, st *State, x *ssa.Call, args []Value) bool {
		s := e.load(st, args[0].(*PtrV)).(*StructV)
		setRes(st, x, s.F[len(s.F)-1])
		return true
	}
	atomicStore := func(e *Engine, st *State, x *ssa.Call, args []Value) bool {
		p := args[0].(*PtrV)
		s := e.load(st, p).(*StructV)
		ns := &StructV{F: append([]Value(nil), s.F...)}
		ns.F[len(ns.F)-1] = args[1]
		e.store(st, p, ns)
		return true
	}
	atomicAdd := func(e *Engine, st *State, x *ssa.Call, args []Value) bool {
		p := args[0].(*PtrV)
		s := e.load(st, p).(*StructV)
		ns := &StructV{F: append([]Value(nil), s.F...)}
		old := s.F[len(s.F)-1].(*Term)
		nv := e.ts.App(old.sort, "bvadd", old, args[1].(*Term))
		ns.F[len(ns.F)-1] = nv
		e.store(st, p, ns)
		setRes(st, x, nv)
		return true
	}
	atomicCAS := func(e *Engine, st *State, x *ssa.Call, args []Value) bool {
		p := args[0].(*PtrV)
		s := e.load(st, p).(*StructV)
		cur := s.F[len(s.F)-1].(*Term)
		eq := e.decide(st, e.ts.Eq(cur, args[1].(*Term))) // before any mutation: forks by re-execution
		if eq {
			ns := &StructV{F: append([]Value(nil), s.F...)}
			ns.F[len(ns.F)-1] = args[2]
			e.store(st, p, ns)
		}
		setRes(st, x, e.ts.Bool(eq))
		return true
	}
	for _, t := range []string{"Int64", "Int32", "Uint64", "Uint32"} {
		models["(*sync/atomic."+t+").CompareAndSwap"] = atomicCAS
		models["(*sync/atomic."+t+").Load"] = atomicLoad
		models["(*sync/atomic."+t+").Store"] = atomicStore
		models["(*sync/atomic."+t+").Add"] = atomicAdd
	}
	models["(*sync/atomic.Bool).Load"] = func(e *Engine, st *State, x *ssa.Call, args []Value) bool {
		s := e.load(st, args[0].(*PtrV)).(*StructV)
		v := s.F[len(s.F)-1].(*Term)
		setRes(st, x, e.ts.Not(e.ts.Eq(v, e.ts.BVInt(32, 0))))
		return true
	}
	models["(*sync/atomic.Bool).Store"] = func(e *Engine, st *State, x *ssa.Call, args []Value) bool {
		p := args[0].(*PtrV)
		s := e.load(st, p).(*StructV)
		ns := &StructV{F: append([]Value(nil), s.F...)}
		ns.F[len(ns.F)-1] = e.ts.Ite(args[1].(*Term), e.ts.BVInt(32, 1), e.ts.BVInt(32, 0))
		e.store(st, p, ns)
		return true
	}
	// forbidden output channels (C27)
	for _, n := range []string{"fmt.Print", "fmt.Println", "fmt.Printf", "log.Print", "log.Println", "log.Printf", "log.Fatal", "log.Fatalf", "fmt.Fprint", "fmt.Fprintln", "fmt.Fprintf", "(*os.File).Write", "(*os.File).WriteString", "log/slog.Info", "log/slog.Warn", "log/slog.Error", "log/slog.Debug", "log/slog.Default"} {
		n := n
		models[n] = func(e *Engine, st *State, x *ssa.Call, args []Value) bool {
			e.violation(st, "FORBIDDEN", "output through "+n+" at "+e.pos(x.Pos()))
			return false
		}
	}
}
