package main

import (
	"golang.org/x/tools/go/ssa"
)

// sort.Slice(x, less): insertion sort driven by the caller's less closure, i.e. exactly what
// sort.Slice runs for n <= 12 (pdqsort_func falls back to insertionSortLessFunc), so the order of
// ties agrees with the real function. Longer slices are refused (unwinding failure).
func init() {
	models["sort.Slice"] = func(e *Engine, st *State, x *ssa.Call, args []Value) bool {
		iv, ok := args[0].(*IfaceV)
		if !ok || iv.V == nil {
			e.abort("sort.Slice of a non-slice")
		}
		sl, ok := iv.V.(*SliceV)
		if !ok {
			e.abort("sort.Slice of %T", iv.V)
		}
		n := e.mustInt(st, sl.Len, "sort.Slice length")
		if n > 12 {
			e.abort("UNWINDING: sort.Slice of %d elements (model is exact for n <= 12 only)", n)
		}
		if n < 2 {
			return true
		}
		fr := &Frame{fn: nil, env: map[ssa.Value]Value{}, caller: st.fr,
			native: &NativeState{kind: "sortslice", sl: sl, iter: args[1].(*FuncV), idx: 1, j: 1}}
		st.fr = fr
		return true
	}
}

func (e *Engine) stepSortSlice(st *State) bool {
	fr := st.fr
	ns := fr.native
	n := e.mustInt(st, ns.sl.Len, "sort.Slice length")
	if ns.waiting {
		lt := e.decide(st, ns.ret.(*Term)) // forks by re-execution of this step
		ns.waiting = false
		if lt {
			off := e.mustInt(st, ns.sl.Off, "sort.Slice offset")
			arr := st.heap[ns.sl.Obj.ID].(*ArrayV)
			na := &ArrayV{E: append([]Value(nil), arr.E...)}
			na.E[off+ns.j], na.E[off+ns.j-1] = na.E[off+ns.j-1], na.E[off+ns.j]
			st.heap[ns.sl.Obj.ID] = na
			ns.j--
		} else {
			ns.idx++
			ns.j = ns.idx
		}
	}
	for ns.j == 0 && ns.idx < n {
		ns.idx++
		ns.j = ns.idx
	}
	if ns.idx >= n {
		st.fr = fr.caller
		return true
	}
	ns.waiting = true
	e.enter(st, ns.iter.Fn, []Value{e.ts.BVInt(64, int64(ns.j)), e.ts.BVInt(64, int64(ns.j-1))}, ns.iter.Bind, nil)
	return true
}
