package main

import (
	"crypto/sha256"
	"encoding/json"
	"fmt"
	"os"
	"path/filepath"
	"sort"
	"strings"
	"time"
)

func writeEvidence(outDir, prop, tier string, seed int, results []*harnessResult, loadT, wall time.Duration, nViol, natOK, ssaOK int, witT time.Duration) error {
	type hEv struct {
		Harness       string            `json:"harness"`
		Bounds        string            `json:"bounds,omitempty"`
		Paths         int               `json:"paths"`
		Obligations   int               `json:"obligations"`
		Discharged    int               `json:"discharged_unsat"`
		ConstFolded   int               `json:"decided_by_constant_folding"`
		Violations    int               `json:"violations"`
		Unknown       int               `json:"unknown"`
		Aborts        int               `json:"aborted_paths"`
		Blocked       int               `json:"blocked_paths"`
		Z3Queries     int               `json:"z3_queries"`
		Cvc5Queries   int               `json:"cvc5_queries"`
		Z3Seconds     float64           `json:"z3_seconds"`
		Cvc5Seconds   float64           `json:"cvc5_seconds"`
		MaxQuerySec   float64           `json:"max_query_seconds"`
		Fallbacks     int               `json:"z3_inconclusive_fallbacks_to_cvc5"`
		Terms         int               `json:"dag_terms"`
		Wall          float64           `json:"wall_s"`
		Preempt       int               `json:"preemption_bound"`
		AssertReached map[string]int    `json:"assert_sites_reached"`
		Overrides     map[string]string `json:"overrides,omitempty"`
		KnownFinding  string            `json:"known_finding,omitempty"`
		Replay        string            `json:"counterexample_confirmation"`
		Replays       []replayOutcome   `json:"replays,omitempty"`
		Complete      int               `json:"complete_paths"`
		WitSampled    int               `json:"witnesses_sampled"`
		WitNative     int               `json:"witnesses_agreeing_native_go_test"`
		WitSSA        int               `json:"witnesses_agreeing_ssa_concrete"`
		WitMode       string            `json:"witness_validation,omitempty"`
		WitObstacles  []string          `json:"paths_not_steerable_natively_because,omitempty"`
	}
	funcs := map[string]bool{}
	modelsU := map[string]bool{}
	assumps := map[string]bool{}
	var hs []hEv
	var samples, witSamples []interface{}
	states, trans, obl, dis, nontriv := 0, 0, 0, 0, 0
	replaysRun, replaysNative := 0, 0
	for _, r := range results {
		conf := "ssa-concrete + native go test"
		if r.Cfg.NoNative {
			conf = "ssa-concrete re-execution"
		}
		h := hEv{Harness: r.Cfg.Name, Bounds: r.Cfg.Bounds, Paths: r.Paths, Obligations: r.Asserts, Discharged: r.Discharged, ConstFolded: r.Trivial,
			Violations: len(r.Violations), Unknown: r.Unknown, Aborts: r.Aborts, Blocked: r.Blocked, Z3Queries: r.Z3Q, Cvc5Queries: r.CvcQ,
			Z3Seconds: r.Z3T.Seconds(), Cvc5Seconds: r.CvcT.Seconds(), MaxQuerySec: r.MaxQ.Seconds(), Fallbacks: r.Fallback, Terms: r.Terms,
			Wall: r.Wall.Seconds(), Preempt: r.Cfg.Preempt, AssertReached: r.Sites, Overrides: r.Cfg.Overrides, KnownFinding: r.Cfg.Known,
			Replay: conf, Replays: r.Replays}
		h.Complete, h.WitSampled = r.Finished, len(r.Witnesses)
		for _, w := range r.Witnesses {
			if w.Result == "agree" && w.Mode == "native" {
				h.WitNative++
			} else if w.Result == "agree" {
				h.WitSSA++
			}
			if len(witSamples) < 2 && w.Result == "agree" && w.Mode == "native" && len(w.Vector) > 0 {
				witSamples = append(witSamples, map[string]interface{}{"harness": r.Cfg.Name, "witness_vector": w.Vector, "assertions_evaluated_natively_and_symbolically": len(w.Asserts), "verdict": "native run agrees with the symbolic path"})
			}
		}
		obst := map[string]bool{}
		for _, w := range r.Witnesses {
			if w.obstacle != "" {
				obst[w.obstacle] = true
			}
		}
		h.WitObstacles = sortedKeys(obst)
		h.WitMode = "native go test"
		if r.WitnessNote != "" {
			h.WitMode = "ssa-concrete only: " + r.WitnessNote
		}
		hs = append(hs, h)
		states += r.Paths
		trans += r.Z3Q + r.CvcQ
		obl += r.Asserts + r.Trivial
		dis += r.Discharged + r.Trivial
		nontriv += r.PathsAsserting
		replaysRun += len(r.Replays)
		for _, ro := range r.Replays {
			if ro.Kind == "native" && ro.Result == "confirmed" {
				replaysNative++
			}
		}
		for _, f := range r.Funcs {
			funcs[f] = true
		}
		for _, m := range r.Models {
			modelsU[m] = true
		}
		for _, a := range r.Assumps {
			assumps[a] = true
		}
		for i, s := range r.Samples {
			if i < 3 {
				samples = append(samples, map[string]string{"harness": r.Cfg.Name, "obligation": s})
			}
		}
	}
	samples = append(samples, witSamples...)
	if len(samples) == 0 {
		samples = append(samples, map[string]string{"note": "no solver-decided obligation on this run (all decided by constant folding or none reached)"})
	}
	var repoFuncs, libFuncs []string
	for f := range funcs {
		if strings.Contains(f, "danthegoodman1/bloomsearch") && !strings.Contains(f, ".H_") && !strings.Contains(f, ".HS_") && !strings.Contains(f, ".vp") && !strings.Contains(f, ".spec") {
			repoFuncs = append(repoFuncs, strings.ReplaceAll(f, "github.com/danthegoodman1/bloomsearch.", ""))
		} else {
			libFuncs = append(libFuncs, strings.ReplaceAll(f, "github.com/danthegoodman1/bloomsearch.", ""))
		}
	}
	sort.Strings(repoFuncs)
	sort.Strings(libFuncs)
	assumptions := []string{
		"bounded symbolic check: holds for every input within the per-harness bounds listed under coverage.harnesses[].bounds; nothing is claimed outside them",
		"GOARCH=amd64 (int/uint are 64-bit); SSA produced by golang.org/x/tools/go/ssa v0.50.0 is faithful to the compiler",
		"z3 4.8.12 / cvc5 1.0.x answers are trusted; any (error line, unknown or timeout makes the check inconclusive (exit 2), never a pass",
	}
	for a := range assumps {
		assumptions = append(assumptions, a)
	}
	ms := sortedKeys(modelsU)
	for _, m := range ms {
		assumptions = append(assumptions, "library model / stub used: "+m)
	}
	sort.Strings(assumptions[3:])
	if len(scheduleNotes) > 0 {
		assumptions = append(assumptions, fmt.Sprintf("%d witness path(s) of concurrent harnesses were taken through another interleaving by the native scheduler (not bound to the executor's schedule); they were validated by deterministic re-execution on the SSA instead", len(scheduleNotes)))
	}
	ev := map[string]interface{}{
		"property_id": prop,
		"tier":        tier,
		"seed":        seed,
		"level":       "model_checking",
		"coverage": map[string]interface{}{
			"states":                                max(states, 0),
			"transitions":                           trans,
			"traces_validated_against_impl":         replaysNative + natOK,
			"counterexamples_replayed":              replaysRun,
			"witness_paths_agreeing_native":         natOK,
			"witness_paths_agreeing_ssa_concrete":   ssaOK,
			"witness_validation_s":                  witT.Seconds(),
			"samples":                               samples,
			"evaluations":                           states,
			"distinct_nontrivial":                   nontriv,
			"rule":                                  "states = evaluations = symbolic execution paths explored over the real SSA (each has a distinct path condition); distinct_nontrivial = those paths that evaluated at least one harness assertion, i.e. were not cut by an assumption or an earlier run-time check before the property was examined; transitions = SMT queries issued; obligations = assertions + Go run-time checks raised, discharged = those shown to hold (solver verdict unsat, or decided by constant folding once the path's forks fix every operand: counted per harness under decided_by_constant_folding); traces_validated_against_impl = complete symbolic paths (seeded sample per harness, models from the solver) plus counterexamples that were executed natively with go test against /repo's build and behaved exactly as the encoding predicted (same nondets consumed, same assertion sequence, same verdict); paths re-executed on the concrete SSA interpreter only are counted separately and not included",
			"obligations":                           obl,
			"discharged":                            dis,
			"exhaustive":                            false,
			"explanation":                           "bounded SMT-based symbolic execution of the real functions' SSA (regenerated from /repo on this run); unsat = holds for every value within the bounds",
			"functions_encoded_repo":                repoFuncs,
			"functions_encoded_harness_and_library": libFuncs,
			"harnesses":                             hs,
			"repo_source_sha256":                    repoHash(),
			"load_and_ssa_build_s":                  loadT.Seconds(),
			"solvers":                               "z3 4.8.12 (-in, soft 10 s/query) with cvc5 1.0.x fallback (--incremental, 60 s/query; 180 s thorough); FloatingPoint queries routed to cvc5; thorough tier cross-checks every conclusive z3 answer on cvc5",
		},
		"assumptions": assumptions,
		"wall_s":      wall.Seconds(),
		"violations":  nViol,
	}
	b, err := json.MarshalIndent(ev, "", " ")
	if err != nil {
		return err
	}
	dir := filepath.Join(outDir, "evidence")
	os.MkdirAll(dir, 0o755)
	return os.WriteFile(filepath.Join(dir, prop+".json"), b, 0o644)
}

func repoHash() string {
	files, _ := filepath.Glob(filepath.Join(repoDir, "*.go"))
	sort.Strings(files)
	h := sha256.New()
	for _, f := range files {
		if strings.HasSuffix(f, "_test.go") {
			continue
		}
		b, err := os.ReadFile(f)
		if err != nil {
			continue
		}
		fmt.Fprintf(h, "%s %d\n", filepath.Base(f), len(b))
		h.Write(b)
	}
	return fmt.Sprintf("%x", h.Sum(nil))
}
