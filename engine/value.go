package main

import (
	"fmt"
	"go/types"

	"golang.org/x/tools/go/ssa"
)

// ---------- values ----------

type Value interface{}

type StructV struct{ F []Value }
type ArrayV struct{ E []Value } // concrete length
type SymBytesV struct {         // symbolic-length byte array (object content)
	Arr  *Term
	Len  *Term
	Over []overlayRec // block copies / byte stores applied on top of Arr, oldest first
}

// overlayRec: bytes [Off, Off+N) of the object equal Src[SrcOff ...] (Src evaluated through its
// own overlays as they were at copy time), or the single byte Val when Src is nil.
type overlayRec struct {
	Off, N *Term
	Src    *SymBytesV
	SrcOff *Term
	Val    *Term
}
type PtrV struct {
	Obj  *Object // nil => nil pointer
	Path []int
}

// SymElemPtr points at one byte of a symbolic byte array.
type SymElemPtr struct {
	Obj *Object
	Idx *Term
}
type SliceV struct {
	Obj           *Object // nil => nil slice
	Off, Len, Cap *Term   // BV64
}
type StrV struct {
	B   []*Term // concrete length, BV8 terms
	Doc *PtrV   // non-nil: the text is the JSON serialisation of an abstract node (content opaque)
	Len *Term   // with Doc: symbolic length
	View *SliceV // non-nil: created by unsafeString over this slice; B is the content at creation (see vpRefreshView)
}
type IfaceV struct {
	T types.Type // nil => nil interface
	V Value
}
type FuncV struct {
	Fn   *ssa.Function
	Bind []Value
}
type ChanRef struct{ Obj *Object }
type ChanV struct {
	Cap    int
	Buf    []Value
	Closed bool
}
type MapRef struct{ Obj *Object }
type MapV struct {
	Keys []Value
	Vals []Value
}
type TupleV []Value

// ErrV is an error object; identity is pointer identity. Wraps lists the errors it wraps
// (fmt.Errorf with %w, errors.Join).
type ErrV struct {
	Msg   string
	Wraps []Value
}

// OpaqueV is a value whose content the encoding does not look into.
type OpaqueV struct {
	Name string
	ID   int
}

// DocBytesV is the heap content of a []byte holding the JSON text of an abstract node.
type DocBytesV struct {
	Node *PtrV
	Len  *Term
}

type Object struct {
	ID int
	T  types.Type
}

// ---------- state ----------

type Frame struct {
	fn        *ssa.Function
	env       map[ssa.Value]Value
	block     *ssa.BasicBlock
	prev      *ssa.BasicBlock
	ip        int
	caller    *Frame
	dest      ssa.Value // where the call result goes in caller
	deferred  []deferredCall
	native    *NativeState
	panicking bool
}

type deferredCall struct {
	fn      *FuncV
	args    []Value
	builtin string
}

type MapIter struct {
	Keys []Value
	Vals []Value
	Pos  int
	Str  *StrV // range over string
}

type selCase struct {
	send  bool
	ch    *ChanRef
	val   Value
	elemT types.Type
}

// NativeState is the continuation of an engine-implemented function that calls back into SSA
// code (gjson.Result.ForEach).
type NativeState struct {
	kind    string
	node    *PtrV // *vpNode
	idx     int
	iter    *FuncV
	waiting bool
	ret     Value
	forced  bool
	resT    types.Type
	sl      *SliceV // sortslice: the slice being sorted
	j       int
}

type NondetRec struct {
	Kind string // i64 int u8 u32 f64 bool choice bytes
	T    *Term
	Arr  *Term // bytes: the array term
}

type State struct {
	heap    map[int]Value
	pc      []*Term
	fr      *Frame
	steps   int
	nondets []NondetRec
	mark    int // len(nondets) at the start of the current instruction
	trace   []string
	forks   int

	threads      []*Thread // threads[cur].fr is stale while cur runs (st.fr is live)
	cur          int
	blockedNow   bool
	stuck        int
	preemptLeft  int
	switchNow    bool
	switchTo     int
	jsonVals     map[int]*IfaceV // json.Marshal ghost pairing: serial -> the value the marker bytes encode
	syncInt      map[string]int // WaitGroup counters, mutex states, once flags, keyed by object+path
	pools        map[string][]Value
	fixedIdx     int               // concrete re-execution: index of the next fixed nondet value
	parks        map[int]*parkInfo // copy-on-write
	maxAlloc     *Term             // largest symbolic-size allocation on this path
	bloom        map[string]*Term  // declared bloom answers, copy-on-write
	pcMaxVar     int               // largest variable number mentioned by the path condition
	sawAssert    bool
	asserts      []string // messages of the vpAssert calls evaluated on this path, in order
	finished     bool     // the harness function returned (path not cut by an assumption or a violation)
	randomSelect bool     // a select with several ready cases was executed (Go chooses at random natively)
	abstract     string   // set when the path took a decision inside a library model the native build cannot be steered to
}

type Thread struct {
	fr   *Frame
	done bool
}

func cloneFrame(f *Frame) *Frame {
	if f == nil {
		return nil
	}
	g := *f
	g.env = make(map[ssa.Value]Value, len(f.env))
	for k, v := range f.env {
		g.env[k] = v
	}
	g.deferred = append([]deferredCall(nil), f.deferred...)
	g.caller = cloneFrame(f.caller)
	if f.native != nil {
		ns := *f.native
		g.native = &ns
	}
	return &g
}

func (st *State) clone() *State {
	n := &State{heap: make(map[int]Value, len(st.heap)), steps: st.steps, mark: st.mark, forks: st.forks, fixedIdx: st.fixedIdx}
	for k, v := range st.heap {
		n.heap[k] = v
	}
	n.pc = append([]*Term(nil), st.pc...)
	n.nondets = append([]NondetRec(nil), st.nondets...)
	n.trace = append([]string(nil), st.trace...)
	n.fr = cloneFrame(st.fr)
	n.cur, n.stuck = st.cur, st.stuck
	n.parks = st.parks
	n.maxAlloc = st.maxAlloc
	n.bloom = st.bloom
	n.pcMaxVar = st.pcMaxVar
	n.sawAssert = st.sawAssert
	n.asserts = append([]string(nil), st.asserts...)
	n.abstract = st.abstract
	n.randomSelect = st.randomSelect
	n.preemptLeft = st.preemptLeft
	n.jsonVals = st.jsonVals
	n.syncInt = make(map[string]int, len(st.syncInt))
	for k, v := range st.syncInt {
		n.syncInt[k] = v
	}
	n.pools = make(map[string][]Value, len(st.pools))
	for k, v := range st.pools {
		n.pools[k] = append([]Value(nil), v...)
	}
	for i, t := range st.threads {
		nt := &Thread{done: t.done}
		if i != st.cur {
			nt.fr = cloneFrame(t.fr)
		}
		n.threads = append(n.threads, nt)
	}
	return n
}

type abortPath struct{ reason string }

func (e *Engine) abort(format string, a ...interface{}) {
	panic(abortPath{fmt.Sprintf(format, a...)})
}

// ---------- type helpers ----------

func intWidth(t types.Type) (w int, isSigned bool, ok bool) {
	b, isB := t.Underlying().(*types.Basic)
	if !isB {
		return 0, false, false
	}
	switch b.Kind() {
	case types.Int, types.Int64, types.UntypedInt:
		return 64, true, true
	case types.Int8:
		return 8, true, true
	case types.Int16:
		return 16, true, true
	case types.Int32, types.UntypedRune:
		return 32, true, true
	case types.Uint, types.Uint64, types.Uintptr:
		return 64, false, true
	case types.Uint8:
		return 8, false, true
	case types.Uint16:
		return 16, false, true
	case types.Uint32:
		return 32, false, true
	}
	return 0, false, false
}

func isFloat(t types.Type) (Sort, bool) {
	b, isB := t.Underlying().(*types.Basic)
	if !isB {
		return Sort{}, false
	}
	switch b.Kind() {
	case types.Float64, types.UntypedFloat:
		return F64, true
	case types.Float32:
		return F32, true
	}
	return Sort{}, false
}

func isString(t types.Type) bool {
	b, ok := t.Underlying().(*types.Basic)
	return ok && b.Info()&types.IsString != 0
}

func isBool(t types.Type) bool {
	b, ok := t.Underlying().(*types.Basic)
	return ok && b.Info()&types.IsBoolean != 0
}

func isErrorType(t types.Type) bool {
	return types.Identical(t, types.Universe.Lookup("error").Type())
}

var errT = types.Universe.Lookup("error").Type()

func (e *Engine) zero(t types.Type) Value {
	switch u := t.Underlying().(type) {
	case *types.Basic:
		if w, _, ok := intWidth(t); ok {
			return e.ts.BVInt(w, 0)
		}
		if s, ok := isFloat(t); ok {
			return e.ts.FPConstBits(s, 0)
		}
		if isBool(t) {
			return e.ts.Bool(false)
		}
		if isString(t) {
			return &StrV{}
		}
		if u.Kind() == types.UnsafePointer {
			return &PtrV{}
		}
		if u.Kind() == types.UntypedNil {
			return nil
		}
	case *types.Struct:
		s := &StructV{F: make([]Value, u.NumFields())}
		for i := range s.F {
			s.F[i] = e.zero(u.Field(i).Type())
		}
		return s
	case *types.Array:
		if u.Len() > 4096 {
			return &OpaqueV{Name: "bigarray"}
		}
		a := &ArrayV{E: make([]Value, u.Len())}
		for i := range a.E {
			a.E[i] = e.zero(u.Elem())
		}
		return a
	case *types.Pointer:
		return &PtrV{}
	case *types.Slice:
		return &SliceV{}
	case *types.Interface:
		return &IfaceV{}
	case *types.Signature:
		return (*FuncV)(nil)
	case *types.Map:
		return &MapRef{}
	case *types.Chan:
		return &ChanRef{}
	case *types.Tuple:
		tv := TupleV{}
		for i := 0; i < u.Len(); i++ {
			tv = append(tv, e.zero(u.At(i).Type()))
		}
		return tv
	}
	e.abort("zero: unsupported type %s", t)
	return nil
}

func (e *Engine) zeroOrNil(t types.Type) Value {
	if b, ok := t.(*types.Basic); ok && b.Kind() == types.Invalid {
		return nil
	}
	return e.zero(t)
}

func (e *Engine) newObj(st *State, t types.Type, v Value) *Object {
	e.nextObj++
	o := &Object{ID: e.nextObj, T: t}
	st.heap[o.ID] = v
	return o
}

// ---------- heap navigation (immutable values, path copy on store) ----------

func getPath(v Value, path []int) Value {
	for _, i := range path {
		switch x := v.(type) {
		case *StructV:
			v = x.F[i]
		case *ArrayV:
			v = x.E[i]
		default:
			panic(abortPath{fmt.Sprintf("getPath: bad container %T", v)})
		}
	}
	return v
}

func setPath(v Value, path []int, nv Value) Value {
	if len(path) == 0 {
		return nv
	}
	switch x := v.(type) {
	case *StructV:
		c := &StructV{F: append([]Value(nil), x.F...)}
		c.F[path[0]] = setPath(x.F[path[0]], path[1:], nv)
		return c
	case *ArrayV:
		c := &ArrayV{E: append([]Value(nil), x.E...)}
		c.E[path[0]] = setPath(x.E[path[0]], path[1:], nv)
		return c
	}
	panic(abortPath{fmt.Sprintf("setPath: bad container %T", v)})
}

func (e *Engine) load(st *State, p *PtrV) Value {
	if p.Obj == nil {
		e.abort("nil pointer dereference (load)")
	}
	return getPath(st.heap[p.Obj.ID], p.Path)
}

func (e *Engine) store(st *State, p *PtrV, v Value) {
	if p.Obj == nil {
		e.abort("nil pointer dereference (store)")
	}
	st.heap[p.Obj.ID] = setPath(st.heap[p.Obj.ID], p.Path, v)
}

func samePath(a, b []int) bool {
	if len(a) != len(b) {
		return false
	}
	for i := range a {
		if a[i] != b[i] {
			return false
		}
	}
	return true
}

func ptrKey(v Value) string {
	p := v.(*PtrV)
	if p.Obj == nil {
		return "nil"
	}
	return fmt.Sprintf("%d%v", p.Obj.ID, p.Path)
}

func (st *State) addPC(ts ...*Term) {
	for _, t := range ts {
		st.pc = append(st.pc, t)
		if t.maxVar > st.pcMaxVar {
			st.pcMaxVar = t.maxVar
		}
	}
}

// freeChoice reports that c is a test on a variable the path condition does not mention yet
// (a fresh nondet bool, or fresh bit-vector == constant): both outcomes are feasible, no query.
func (st *State) freeChoice(c *Term) bool {
	if c.op == "not" {
		c = c.args[0]
	}
	if c.minVar == 0 || c.minVar <= st.pcMaxVar {
		return false
	}
	if c.op == "var" {
		return true
	}
	if c.op == "=" && len(c.args) == 2 {
		a, b := c.args[0], c.args[1]
		if a.op == "var" && b.IsConst() || b.op == "var" && a.IsConst() {
			return true
		}
	}
	return false
}
