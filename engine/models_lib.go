package main

import (
	"sort"
	"go/types"
	"math"
	"fmt"
	"math/big"
	"strings"

	"golang.org/x/tools/go/ssa"
)

// ReaderV models *bytes.Reader over a slice (content never inspected by the models that take it).
type ReaderV struct{ S *SliceV }

func init() {
	bitsLen := func(e *Engine, st *State, x *ssa.Call, args []Value) bool {
		ts := e.ts
		v := e.ext64(args[0].(*Term), false)
		res := ts.BVInt(64, 0)
		for k := 0; k < 64; k++ {
			// v >= 2^k  => Len >= k+1
			ge := ts.App(BoolSort, "bvuge", v, ts.BVConst(64, pow2(k)))
			res = ts.Ite(ge, ts.BVInt(64, int64(k+1)), res)
		}
		setRes(st, x, res)
		return true
	}
	models["math/bits.Len"] = bitsLen
	models["math/bits.Len64"] = bitsLen
	models["math/bits.Len32"] = bitsLen
	models["bytes.NewReader"] = func(e *Engine, st *State, x *ssa.Call, args []Value) bool {
		o := e.newObj(st, nil, &ReaderV{S: args[0].(*SliceV)})
		setRes(st, x, &PtrV{Obj: o})
		return true
	}
	// bloom (de)serialisation: succeeds or fails arbitrarily; content is the library's business
	models["(*github.com/bits-and-blooms/bloom/v3.BloomFilter).ReadFrom"] = func(e *Engine, st *State, x *ssa.Call, args []Value) bool {
		ts := e.ts
		st.abstract = "bloom ReadFrom is modelled as succeeding or failing arbitrarily"
		okb := e.newNondet(st, "bool", BoolSort)
		good := TupleV{ts.Var("n", BV(64)), nilErr()}
		bad := TupleV{ts.BVInt(64, 0), newErr("bloom: decode")}
		var xv ssa.Value
		if x != nil {
			xv = x
		}
		return e.forkAlts(st, xv, []alt{{okb, good}, {ts.Not(okb), bad}})
	}
}

func init() {
	// sort.Strings on a slice of concrete-length strings: insertion sort whose comparisons are
	// decided (forking when both orders are feasible) before the slice is written.
	models["sort.Strings"] = func(e *Engine, st *State, x *ssa.Call, args []Value) bool {
		sl := args[0].(*SliceV)
		if sl.Obj == nil {
			return true
		}
		elems := append([]Value(nil), e.sliceElems(st, sl)...)
		for i := 1; i < len(elems); i++ {
			for j := i; j > 0; j-- {
				if !e.decide(st, e.strLess(elems[j].(*StrV), elems[j-1].(*StrV))) {
					break
				}
				elems[j], elems[j-1] = elems[j-1], elems[j]
			}
		}
		off := e.mustInt(st, sl.Off, "sort offset")
		old := st.heap[sl.Obj.ID].(*ArrayV)
		na := &ArrayV{E: append([]Value(nil), old.E...)}
		copy(na.E[off:], elems)
		st.heap[sl.Obj.ID] = na
		return true
	}
}

// BloomV models *bloom.BloomFilter as a set with one-sided error: answers are whatever the
// harness declared with vpBloomSet (or an unconstrained value for undeclared keys); Adds recorded.
type BloomV struct {
	ID   int
	N    *Term // NewWithEstimates n
	P    *Term // NewWithEstimates p
	M, K *Term // bloom.New(m, k)
	Adds []*StrV
}

// RegexpV models *regexp.Regexp: MatchString is an uninterpreted predicate per (pattern, text).
type RegexpV struct {
	Pat *StrV
	ID  int
}

func strSig(s *StrV) string {
	if s.Doc != nil {
		return fmt.Sprintf("doc%d", s.Doc.Obj.ID)
	}
	var sb strings.Builder
	for _, b := range s.B {
		fmt.Fprintf(&sb, "%d.", b.id)
	}
	return sb.String()
}

func (e *Engine) bloomOf(st *State, v Value) (*BloomV, *PtrV) {
	p := v.(*PtrV)
	if p.Obj == nil {
		return nil, p
	}
	b, _ := st.heap[p.Obj.ID].(*BloomV)
	return b, p
}

func init() {
	harnessModels["vpNewBloom"] = func(e *Engine, st *State, x *ssa.Call, args []Value) bool {
		e.nextObj++
		o := e.newObj(st, nil, &BloomV{ID: e.nextObj})
		setRes(st, x, &PtrV{Obj: o})
		return true
	}
	// vpBloomSet(f, key, answer): TestString(key) on f returns answer
	harnessModels["vpBloomSet"] = func(e *Engine, st *State, x *ssa.Call, args []Value) bool {
		_, p := e.bloomOf(st, args[0])
		k := fmt.Sprintf("bloom:%d:%s", p.Obj.ID, strSig(args[1].(*StrV)))
		nb := make(map[string]*Term, len(st.bloom)+1)
		for kk, v := range st.bloom {
			nb[kk] = v
		}
		nb[k] = args[2].(*Term)
		st.bloom = nb
		return true
	}
	test := func(e *Engine, st *State, x *ssa.Call, args []Value) bool {
		b, p := e.bloomOf(st, args[0])
		if p.Obj == nil {
			e.violation(st, "PANIC", "TestString on nil bloom filter")
			return false
		}
		key := args[1].(*StrV)
		k := fmt.Sprintf("bloom:%d:%s", p.Obj.ID, strSig(key))
		if v, ok := st.bloom[k]; ok {
			setRes(st, x, v)
			return true
		}
		// an added element always tests positive; anything else is arbitrary (false positives)
		ans := e.ts.Var("bloomtest", BoolSort)
		if b != nil {
			for _, a := range b.Adds {
				if len(a.B) == len(key.B) {
					ans = e.ts.Or(ans, e.strEq(a, key))
				}
			}
		}
		setRes(st, x, ans)
		return true
	}
	models["(*github.com/bits-and-blooms/bloom/v3.BloomFilter).TestString"] = test
	models["github.com/bits-and-blooms/bloom/v3.NewWithEstimates"] = func(e *Engine, st *State, x *ssa.Call, args []Value) bool {
		e.nextObj++
		o := e.newObj(st, nil, &BloomV{ID: e.nextObj, N: args[0].(*Term), P: args[1].(*Term)})
		setRes(st, x, &PtrV{Obj: o})
		return true
	}
	// EstimateParameters(n, p) = (m, k): two uninterpreted functions of (n, p), memoised per
	// argument terms; NewWithEstimates(n, p) is New(EstimateParameters(n, p)).
	models["github.com/bits-and-blooms/bloom/v3.EstimateParameters"] = func(e *Engine, st *State, x *ssa.Call, args []Value) bool {
		m, k := e.bloomEstimate(args[0].(*Term), args[1].(*Term))
		setRes(st, x, TupleV{m, k})
		return true
	}
	models["github.com/bits-and-blooms/bloom/v3.New"] = func(e *Engine, st *State, x *ssa.Call, args []Value) bool {
		e.nextObj++
		o := e.newObj(st, nil, &BloomV{ID: e.nextObj, M: args[0].(*Term), K: args[1].(*Term)})
		setRes(st, x, &PtrV{Obj: o})
		return true
	}
	// vpBloomMeetsEstimate(f, n, p): f has at least the bits and exactly the hash count that
	// EstimateParameters(n, p) prescribes (so its false positive rate for n entries is <= p under
	// the library's sizing); for a filter made by NewWithEstimates(n', p'): n' >= n and p' <= p.
	harnessModels["vpBloomMeetsEstimate"] = func(e *Engine, st *State, x *ssa.Call, args []Value) bool {
		ts := e.ts
		b, _ := e.bloomOf(st, args[0])
		if b == nil {
			setRes(st, x, ts.Bool(false))
			return true
		}
		n, p := args[1].(*Term), args[2].(*Term)
		switch {
		case b.N != nil:
			setRes(st, x, ts.And(ts.App(BoolSort, "bvuge", b.N, n), ts.App(BoolSort, "fp.leq", b.P, p)))
		case b.M != nil:
			m, k := e.bloomEstimate(n, p)
			setRes(st, x, ts.And(ts.App(BoolSort, "bvuge", b.M, m), ts.Eq(b.K, k)))
		default:
			setRes(st, x, ts.Bool(false))
		}
		return true
	}
	harnessModels["vpBloomAdded"] = func(e *Engine, st *State, x *ssa.Call, args []Value) bool {
		b, _ := e.bloomOf(st, args[0])
		key := args[1].(*StrV)
		ans := e.ts.Bool(false)
		if b != nil {
			for _, a := range b.Adds {
				if len(a.B) == len(key.B) {
					ans = e.ts.Or(ans, e.strEq(a, key))
				}
			}
		}
		setRes(st, x, ans)
		return true
	}
	harnessModels["vpBloomAddCount"] = func(e *Engine, st *State, x *ssa.Call, args []Value) bool {
		b, _ := e.bloomOf(st, args[0])
		n := 0
		if b != nil {
			n = len(b.Adds)
		}
		setRes(st, x, e.ts.BVInt(64, int64(n)))
		return true
	}
	models["(*github.com/bits-and-blooms/bloom/v3.BloomFilter).AddString"] = func(e *Engine, st *State, x *ssa.Call, args []Value) bool {
		b, p := e.bloomOf(st, args[0])
		if b == nil {
			e.violation(st, "PANIC", "AddString on nil bloom filter")
			return false
		}
		nb := &BloomV{ID: b.ID, N: b.N, P: b.P, M: b.M, K: b.K, Adds: append(append([]*StrV(nil), b.Adds...), args[1].(*StrV))}
		st.heap[p.Obj.ID] = nb
		setRes(st, x, p)
		return true
	}
	models["regexp.Compile"] = func(e *Engine, st *State, x *ssa.Call, args []Value) bool {
		if _, ok := literalPattern(args[0].(*StrV)); ok { // letters and digits only: always compiles
			e.nextObj++
			o := e.newObj(st, nil, &RegexpV{Pat: args[0].(*StrV), ID: e.nextObj})
			setRes(st, x, TupleV{&PtrV{Obj: o}, nilErr()})
			return true
		}
		st.abstract = "regexp.Compile is modelled as succeeding or failing arbitrarily"
		okb := e.newNondet(st, "bool", BoolSort)
		e.nextObj++
		o := e.newObj(st, nil, &RegexpV{Pat: args[0].(*StrV), ID: e.nextObj})
		good := TupleV{&PtrV{Obj: o}, nilErr()}
		bad := TupleV{&PtrV{}, newErr("regexp: syntax error")}
		var xv ssa.Value
		if x != nil {
			xv = x
		}
		return e.forkAlts(st, xv, []alt{{okb, good}, {e.ts.Not(okb), bad}})
	}
	// vpRegexMatches(pattern, text): the same uninterpreted predicate MatchString is modelled by
	harnessModels["vpRegexMatches"] = func(e *Engine, st *State, x *ssa.Call, args []Value) bool {
		if lit, ok := literalPattern(args[0].(*StrV)); ok {
			setRes(st, x, e.strContains(args[1].(*StrV), lit))
			return true
		}
		k := fmt.Sprintf("re:%s:%s", strSig(args[0].(*StrV)), strSig(args[1].(*StrV)))
		v, ok := e.reMemo[k]
		if !ok {
			v = e.ts.Var("rematch", BoolSort)
			e.reMemo[k] = v
		}
		setRes(st, x, v)
		return true
	}
	models["(*regexp.Regexp).MatchString"] = func(e *Engine, st *State, x *ssa.Call, args []Value) bool {
		p := args[0].(*PtrV)
		if p.Obj == nil {
			e.violation(st, "PANIC", "MatchString on nil *Regexp")
			return false
		}
		r := st.heap[p.Obj.ID].(*RegexpV)
		if lit, ok := literalPattern(r.Pat); ok { // a pattern of letters and digits only matches iff the text contains it
			setRes(st, x, e.strContains(args[1].(*StrV), lit))
			return true
		}
		k := fmt.Sprintf("re:%s:%s", strSig(r.Pat), strSig(args[1].(*StrV)))
		v, ok := e.reMemo[k]
		if !ok {
			v = e.ts.Var("rematch", BoolSort)
			e.reMemo[k] = v
		}
		setRes(st, x, v)
		return true
	}
	models["github.com/danthegoodman1/bloomsearch.isBasicWhitespaceLowerTokenizer"] = func(e *Engine, st *State, x *ssa.Call, args []Value) bool {
		fv, _ := args[0].(*FuncV)
		setRes(st, x, e.ts.Bool(fv != nil && fv.Fn.Name() == "BasicWhitespaceLowerTokenizer" && len(fv.Bind) == 0))
		return true
	}
}

func init() {
	// encoding/json.Marshal: serialisation is library code outside the encoding. A struct (the file
	// footer payload) always marshals, to bytes of opaque content; a row map marshals to the JSON
	// text of the abstract node it was built from (key "\x00node"), fails if it carries the
	// harness' unmarshalable marker (key "bad", natively a chan value), else to opaque bytes.
	models["encoding/json.Marshal"] = func(e *Engine, st *State, x *ssa.Call, args []Value) bool {
		ts := e.ts
		iv := args[0].(*IfaceV)
		opaque := func(n int) Value {
			elems := make([]Value, n)
			for i := range elems {
				elems[i] = ts.Var("json", BV(8))
			}
			return e.mkSlice(st, elems)
		}
		if mr, ok := iv.V.(*MapRef); ok && mr.Obj != nil {
			mv := st.heap[mr.Obj.ID].(*MapV)
			for i, k := range mv.Keys {
				ks, isStr := k.(*StrV)
				if !isStr {
					continue
				}
				if s, ok := strConcrete(ks); ok && s == "bad" {
					setRes(st, x, TupleV{&SliceV{}, newErr("json: unsupported type: chan int")})
					return true
				} else if ok && s == "\x00node" {
					node := mv.Vals[i].(*IfaceV).V.(*PtrV)
					ln := ts.Var("doclen", BV(64))
					st.addPC(ts.App(BoolSort, "bvuge", ln, ts.BVInt(64, 2)), ts.App(BoolSort, "bvult", ln, ts.BVInt(64, 1<<30)))
					o := e.newObj(st, nil, &DocBytesV{Node: node, Len: ln})
					setRes(st, x, TupleV{&SliceV{Obj: o, Off: ts.BVInt(64, 0), Len: ln, Cap: ln}, nilErr()})
					return true
				}
			}
			// a map of concrete plain-ASCII string keys and values marshals to its real JSON text
			// (keys sorted, no escaping needed), so byte counts agree with the native run
			if txt, ok := e.plainJSONObject(mv); ok {
				elems := make([]Value, len(txt))
				for i := range elems {
					elems[i] = ts.BVInt(8, int64(txt[i]))
				}
				setRes(st, x, TupleV{e.mkSlice(st, elems), nilErr()})
				return true
			}
			setRes(st, x, TupleV{opaque(3), nilErr()})
			return true
		}
		// any other value (the file footer's metadata struct): opaque bytes that remember what they
		// encode, so that json.Unmarshal of the same bytes yields the value back (ghost pairing)
		// two concrete marker bytes (0xF5, serial number): distinct per Marshal call, and never
		// mistaken for framing constants when a reader looks at a truncated file
		serial := st.syncInt["jsonSerial"] + 1
		st.syncInt["jsonSerial"] = serial
		if serial > 255 {
			e.abort("UNWINDING: more than 255 json.Marshal calls of structs on one path")
		}
		ob := e.mkSlice(st, []Value{ts.BVInt(8, 0xF5), ts.BVInt(8, int64(serial))})
		nj := make(map[int]*IfaceV, len(st.jsonVals)+1)
		for k, v := range st.jsonVals {
			nj[k] = v
		}
		nj[serial] = iv
		st.jsonVals = nj
		setRes(st, x, TupleV{ob, nilErr()})
		return true
	}
	models["encoding/json.Unmarshal"] = func(e *Engine, st *State, x *ssa.Call, args []Value) bool {
		sl := args[0].(*SliceV)
		var src *IfaceV
		if sl.Obj != nil {
			if _, isArr := st.heap[sl.Obj.ID].(*ArrayV); isArr {
				if els := e.sliceElems(st, sl); len(els) == 2 {
					m, ok1 := concreteInt(e.ts.ZeroExt(64, els[0].(*Term)))
					n, ok2 := concreteInt(e.ts.ZeroExt(64, els[1].(*Term)))
					if ok1 && ok2 && m == 0xF5 {
						src = st.jsonVals[n]
					}
				}
			}
		}
		if src == nil {
			e.abort("UNMODELLED json.Unmarshal of bytes that no json.Marshal call on this path produced")
		}
		dst := args[1].(*IfaceV)
		p, isPtr := dst.V.(*PtrV)
		if !isPtr || p.Obj == nil {
			e.abort("UNMODELLED json.Unmarshal into %T", dst.V)
		}
		e.store(st, p, src.V)
		setRes(st, x, nilErr())
		return true
	}
	models["(*bytes.Buffer).WriteByte"] = func(e *Engine, st *State, x *ssa.Call, args []Value) bool {
		p := args[0].(*PtrV)
		b := e.load(st, p).(*StructV)
		sl := b.F[0].(*SliceV)
		var old []Value
		if sl.Obj != nil {
			old = e.sliceElems(st, sl)
		}
		nb := &StructV{F: append([]Value(nil), b.F...)}
		nb.F[0] = e.mkSlice(st, append(append([]Value(nil), old...), args[1]))
		e.store(st, p, nb)
		setRes(st, x, nilErr())
		return true
	}
}

func init() {
	// time: the clock is an arbitrary non-zero instant (wall word != 0: time.Now always sets the
	// monotonic flag); IsZero is exact for the zero Time and for values returned by this model.
	models["time.Now"] = func(e *Engine, st *State, x *ssa.Call, args []Value) bool {
		ts := e.ts
		// hasMonotonic (top bit) is always set by time.Now; no path-condition conjunct is needed
		wall := ts.App(BV(64), "bvor", ts.Var("now_wall", BV(64)), ts.BVConst(64, new(big.Int).Lsh(big.NewInt(1), 63)))
		z := e.zero(x.Type()).(*StructV)
		t := &StructV{F: append([]Value(nil), z.F...)}
		t.F[0], t.F[1] = wall, ts.Var("now_ext", BV(64))
		setRes(st, x, t)
		return true
	}
	models["time.Since"] = func(e *Engine, st *State, x *ssa.Call, args []Value) bool {
		// an arbitrary non-negative duration (monotonic clock): top bit cleared; a harness may pin the
		// clock with vpSetClock (1: a very long time has passed, 2: no time has passed)
		switch st.syncInt["clock"] {
		case 1:
			setRes(st, x, e.ts.BVInt(64, 1<<62))
			return true
		case 2:
			setRes(st, x, e.ts.BVInt(64, 0))
			return true
		}
		d := e.ts.App(BV(64), "bvlshr", e.ts.Var("since", BV(64)), e.ts.BVInt(64, 1))
		setRes(st, x, d)
		return true
	}
	// log/slog: a Logger is an opaque object remembering its handler; its logging methods are no-ops
	// (calls.go), Enabled is false (discard), Handler returns what New was given.
	models["log/slog.New"] = func(e *Engine, st *State, x *ssa.Call, args []Value) bool {
		elem := x.Type().Underlying().(*types.Pointer).Elem()
		z := e.zero(elem).(*StructV)
		lg := &StructV{F: append([]Value(nil), z.F...)}
		lg.F[0] = args[0]
		o := e.newObj(st, elem, lg)
		setRes(st, x, &PtrV{Obj: o})
		return true
	}
	models["(*log/slog.Logger).Handler"] = func(e *Engine, st *State, x *ssa.Call, args []Value) bool {
		setRes(st, x, e.load(st, args[0].(*PtrV)).(*StructV).F[0])
		return true
	}
	models["(*time.Ticker).Stop"] = func(e *Engine, st *State, x *ssa.Call, args []Value) bool { return true }
	models["(time.Duration).Seconds"] = func(e *Engine, st *State, x *ssa.Call, args []Value) bool {
		// float64(d)/1e9: differs from Go's float64(sec)+float64(nsec)/1e9 in the last bits only
		// (sign and zero-ness agree); bvsdiv by 1e9 is avoided on purpose.
		ts := e.ts
		f := ts.App(F64, "(_ to_fp 11 53) RNE", args[0].(*Term))
		setRes(st, x, ts.App(F64, "fp.div RNE", f, ts.FPConstBits(F64, math.Float64bits(1e9))))
		return true
	}
	models["(time.Time).IsZero"] = func(e *Engine, st *State, x *ssa.Call, args []Value) bool {
		ts := e.ts
		t := args[0].(*StructV)
		setRes(st, x, ts.And(ts.Eq(t.F[0].(*Term), ts.BVInt(64, 0)), ts.Eq(t.F[1].(*Term), ts.BVInt(64, 0))))
		return true
	}
}


// plainJSONObject renders a map[string]any whose keys and values are concrete strings of printable
// ASCII without characters encoding/json escapes.
func (e *Engine) plainJSONObject(mv *MapV) (string, bool) {
	plain := func(s string) bool {
		for i := 0; i < len(s); i++ {
			c := s[i]
			if c < 0x20 || c >= 0x7f || c == '"' || c == '\\' || c == '<' || c == '>' || c == '&' {
				return false
			}
		}
		return true
	}
	type kv struct{ k, v string }
	var kvs []kv
	for i, k := range mv.Keys {
		ks, ok := k.(*StrV)
		if !ok {
			return "", false
		}
		key, ok := strConcrete(ks)
		if !ok || !plain(key) {
			return "", false
		}
		iv, ok := mv.Vals[i].(*IfaceV)
		if !ok {
			return "", false
		}
		var val string
		switch vv := iv.V.(type) {
		case *StrV:
			sv, ok := strConcrete(vv)
			if !ok || !plain(sv) {
				return "", false
			}
			val = "\"" + sv + "\""
		case *Term: // a concrete integer of a signed integer type
			w, sg, isInt := intWidth(iv.T)
			if !isInt || !sg || !vv.IsConst() {
				return "", false
			}
			val = signed(w, vv.cv).String()
		default:
			return "", false
		}
		kvs = append(kvs, kv{key, val})
	}
	sort.Slice(kvs, func(i, j int) bool { return kvs[i].k < kvs[j].k })
	out := "{"
	for i, p := range kvs {
		if i > 0 {
			out += ","
		}
		out += "\"" + p.k + "\":" + p.v
	}
	return out + "}", true
}


func (e *Engine) bloomEstimate(n, p *Term) (*Term, *Term) {
	km := fmt.Sprintf("bloomM:%d:%d", n.id, p.id)
	m, ok := e.crcMemo[km]
	if !ok {
		m = e.ts.Var("bloom_m", BV(64))
		e.crcMemo[km] = m
	}
	kk := fmt.Sprintf("bloomK:%d:%d", n.id, p.id)
	k, ok := e.crcMemo[kk]
	if !ok {
		k = e.ts.Var("bloom_k", BV(64))
		e.crcMemo[kk] = k
	}
	return m, k
}


// literalPattern: a concrete, non-empty regexp source made of ASCII letters and digits only.
func literalPattern(p *StrV) (*StrV, bool) {
	src, ok := strConcrete(p)
	if !ok || src == "" {
		return nil, false
	}
	for i := 0; i < len(src); i++ {
		c := src[i]
		if !(c >= 'a' && c <= 'z' || c >= 'A' && c <= 'Z' || c >= '0' && c <= '9') {
			return nil, false
		}
	}
	return p, true
}
