package main

import (
	"golang.org/x/tools/go/ssa"
)

// ReaderV models *bytes.Reader over a slice (content never inspected by the models that take it).
type ReaderV struct{ S *SliceV }

func init() {
	bitsLen := func(e *Engine, st *State, x *ssa.Call, args []Value) bool {
		ts := e.ts
		v := e.ext64(args[0].(*Term), false)
		res := ts.BVInt(64, 0)
		for k := 0; k < 64; k++ {
			// v >= 2^k  => Len >= k+1
			ge := ts.App(BoolSort, "bvuge", v, ts.BVConst(64, pow2(k)))
			res = ts.Ite(ge, ts.BVInt(64, int64(k+1)), res)
		}
		setRes(st, x, res)
		return true
	}
	models["math/bits.Len"] = bitsLen
	models["math/bits.Len64"] = bitsLen
	models["math/bits.Len32"] = bitsLen
	models["bytes.NewReader"] = func(e *Engine, st *State, x *ssa.Call, args []Value) bool {
		o := e.newObj(st, nil, &ReaderV{S: args[0].(*SliceV)})
		setRes(st, x, &PtrV{Obj: o})
		return true
	}
	// bloom (de)serialisation: succeeds or fails arbitrarily; content is the library's business
	models["(*github.com/bits-and-blooms/bloom/v3.BloomFilter).ReadFrom"] = func(e *Engine, st *State, x *ssa.Call, args []Value) bool {
		ts := e.ts
		okb := e.newNondet(st, "bool", BoolSort)
		good := TupleV{ts.Var("n", BV(64)), nilErr()}
		bad := TupleV{ts.BVInt(64, 0), newErr("bloom: decode")}
		var xv ssa.Value
		if x != nil {
			xv = x
		}
		return e.forkAlts(st, xv, []alt{{okb, good}, {ts.Not(okb), bad}})
	}
}
