package main

import (
	"go/types"

	"golang.org/x/tools/go/ssa"
)

// ReflectV models reflect.Value for the few kind-based accessors the code under test uses.
type ReflectV struct{ I *IfaceV }

func reflectKind(t types.Type) int {
	switch u := t.Underlying().(type) {
	case *types.Basic:
		switch u.Kind() {
		case types.Bool:
			return 1
		case types.Int:
			return 2
		case types.Int8:
			return 3
		case types.Int16:
			return 4
		case types.Int32:
			return 5
		case types.Int64:
			return 6
		case types.Uint:
			return 7
		case types.Uint8:
			return 8
		case types.Uint16:
			return 9
		case types.Uint32:
			return 10
		case types.Uint64:
			return 11
		case types.Uintptr:
			return 12
		case types.Float32:
			return 13
		case types.Float64:
			return 14
		case types.Complex64:
			return 15
		case types.Complex128:
			return 16
		case types.String:
			return 24
		case types.UnsafePointer:
			return 26
		}
	case *types.Array:
		return 17
	case *types.Chan:
		return 18
	case *types.Signature:
		return 19
	case *types.Interface:
		return 20
	case *types.Map:
		return 21
	case *types.Pointer:
		return 22
	case *types.Slice:
		return 23
	case *types.Struct:
		return 25
	}
	return 0
}

func init() {
	models["reflect.ValueOf"] = func(e *Engine, st *State, x *ssa.Call, args []Value) bool {
		setRes(st, x, &ReflectV{I: args[0].(*IfaceV)})
		return true
	}
	models["(reflect.Value).Kind"] = func(e *Engine, st *State, x *ssa.Call, args []Value) bool {
		rv := args[0].(*ReflectV)
		k := 0
		if rv.I.T != nil {
			k = reflectKind(rv.I.T)
		}
		setRes(st, x, e.ts.BVInt(64, int64(k)))
		return true
	}
	models["(reflect.Value).IsValid"] = func(e *Engine, st *State, x *ssa.Call, args []Value) bool {
		setRes(st, x, e.ts.Bool(args[0].(*ReflectV).I.T != nil))
		return true
	}
	models["(reflect.Value).Int"] = func(e *Engine, st *State, x *ssa.Call, args []Value) bool {
		rv := args[0].(*ReflectV)
		k := reflectKind(rv.I.T)
		if k < 2 || k > 6 {
			e.violation(st, "PANIC", "reflect: call of reflect.Value.Int on non-int Value")
			return false
		}
		setRes(st, x, e.ts.SignExt(64, rv.I.V.(*Term)))
		return true
	}
	models["(reflect.Value).Uint"] = func(e *Engine, st *State, x *ssa.Call, args []Value) bool {
		rv := args[0].(*ReflectV)
		k := reflectKind(rv.I.T)
		if k < 7 || k > 12 {
			e.violation(st, "PANIC", "reflect: call of reflect.Value.Uint on non-uint Value")
			return false
		}
		setRes(st, x, e.ts.ZeroExt(64, rv.I.V.(*Term)))
		return true
	}
	models["(reflect.Value).Float"] = func(e *Engine, st *State, x *ssa.Call, args []Value) bool {
		rv := args[0].(*ReflectV)
		k := reflectKind(rv.I.T)
		t := rv.I.V.(*Term)
		switch k {
		case 13:
			setRes(st, x, e.ts.App(F64, "(_ to_fp 11 53) RNE", t))
		case 14:
			setRes(st, x, t)
		default:
			e.violation(st, "PANIC", "reflect: call of reflect.Value.Float on non-float Value")
			return false
		}
		return true
	}
}
