package main

import (
	"fmt"
	"os"
	"go/types"

	"golang.org/x/tools/go/ssa"
)

// ---------- channels / select / threads ----------
//
// Semantics follow the Go runtime: a goroutine parked in a select (or plain send/receive) is
// completed *by the goroutine that makes one of its cases ready* (direct hand-off), so a parked
// goroutine commits to the first case that becomes ready and never re-evaluates the others.

type parkInfo struct {
	cases   []selCase
	done    bool // completed on our behalf by a waker
	idx     int  // case completed
	recvVal Value
	recvOk  bool
}

func (e *Engine) chanOf(st *State, c *ChanRef) *ChanV {
	if c == nil || c.Obj == nil {
		return nil
	}
	return st.heap[c.Obj.ID].(*ChanV)
}

func (st *State) park(i int) *parkInfo {
	if st.parks == nil {
		return nil
	}
	return st.parks[i]
}

// parkedPartner finds another thread parked (not yet completed) on ch in the given direction.
func (e *Engine) parkedPartner(st *State, chID int, wantSend bool) (int, int) {
	for ti := range st.threads {
		if ti == st.cur || st.threads[ti].done {
			continue
		}
		p := st.park(ti)
		if p == nil || p.done {
			continue
		}
		for ci, c := range p.cases {
			if c.ch != nil && c.ch.Obj != nil && c.ch.Obj.ID == chID && c.send == wantSend {
				return ti, ci
			}
		}
	}
	return -1, -1
}

func (st *State) setPark(i int, p *parkInfo) {
	np := make(map[int]*parkInfo, len(st.parks)+1)
	for k, v := range st.parks {
		np[k] = v
	}
	if p == nil {
		delete(np, i)
	} else {
		np[i] = p
	}
	st.parks = np
}

// selectOp implements send, receive and select.
func (e *Engine) selectOp(st *State, sel *ssa.Select, recv *ssa.UnOp, cases []selCase, blocking bool) bool {
	ts := e.ts
	zeroRecvs := func(chosen int, v Value, okv bool) Value {
		if sel != nil {
			t := TupleV{ts.BVConst(64, bigInt(int64(chosen))), ts.Bool(okv)}
			for j, cc := range cases {
				if cc.send {
					continue
				}
				if j == chosen && v != nil {
					t = append(t, v)
				} else {
					t = append(t, e.zero(cc.elemT))
				}
			}
			return t
		}
		if recv != nil {
			if recv.CommaOk {
				return TupleV{v, ts.Bool(okv)}
			}
			return v
		}
		return nil
	}
	setResult := func(s *State, val Value) {
		if sel != nil {
			s.fr.env[sel] = val
		} else if recv != nil {
			s.fr.env[recv] = val
		}
	}

	// resumed after having been completed by a waker?
	if p := st.park(st.cur); p != nil {
		if p.done {
			c := p.cases[p.idx]
			var v Value
			if !c.send {
				v = p.recvVal
			}
			st.setPark(st.cur, nil)
			setResult(st, zeroRecvs(p.idx, v, p.recvOk))
			return true
		}
		st.setPark(st.cur, nil)
	}

	type outcome struct {
		idx   int
		apply func(s *State) (Value, bool)
	}
	var outs []outcome
	for i, c := range cases {
		i, c := i, c
		ch := e.chanOf(st, c.ch)
		if ch == nil {
			continue // nil channel: never ready
		}
		id := c.ch.Obj.ID
		if c.send {
			if ch.Closed {
				outs = append(outs, outcome{i, nil}) // panic
				continue
			}
			if pt, pc := e.parkedPartner(st, id, false); pt >= 0 {
				outs = append(outs, outcome{i, func(s *State) (Value, bool) {
					pp := *s.park(pt)
					pp.done, pp.idx, pp.recvVal, pp.recvOk = true, pc, c.val, true
					s.setPark(pt, &pp)
					return nil, false
				}})
			} else if len(ch.Buf) < ch.Cap {
				outs = append(outs, outcome{i, func(s *State) (Value, bool) {
					old := s.heap[id].(*ChanV)
					s.heap[id] = &ChanV{Cap: old.Cap, Buf: append(append([]Value(nil), old.Buf...), c.val), Closed: old.Closed}
					return nil, false
				}})
			}
			continue
		}
		if len(ch.Buf) > 0 {
			outs = append(outs, outcome{i, func(s *State) (Value, bool) {
				old := s.heap[id].(*ChanV)
				v := old.Buf[0]
				nb := append([]Value(nil), old.Buf[1:]...)
				if pt, pc := e.parkedPartner(s, id, true); pt >= 0 { // a blocked sender refills the buffer
					pp := *s.park(pt)
					nb = append(nb, pp.cases[pc].val)
					pp.done, pp.idx = true, pc
					s.setPark(pt, &pp)
				}
				s.heap[id] = &ChanV{Cap: old.Cap, Buf: nb, Closed: old.Closed}
				return v, true
			}})
		} else if pt, pc := e.parkedPartner(st, id, true); pt >= 0 {
			outs = append(outs, outcome{i, func(s *State) (Value, bool) {
				pp := *s.park(pt)
				v := pp.cases[pc].val
				pp.done, pp.idx = true, pc
				s.setPark(pt, &pp)
				return v, true
			}})
		} else if ch.Closed {
			outs = append(outs, outcome{i, func(s *State) (Value, bool) { return e.zero(c.elemT), false }})
		}
	}
	if len(outs) == 0 {
		if !blocking {
			setResult(st, zeroRecvs(-1, nil, false))
			return true
		}
		// park
		st.setPark(st.cur, &parkInfo{cases: cases})
		st.fr.ip--
		st.blockedNow = true
		return true
	}
	// any ready case may be chosen: fork over all of them (the first continues on st)
	if len(outs) > 1 {
		// natively Go picks among ready cases at random: the vector alone does not steer the run
		st.randomSelect = true
	}
	for k := 1; k < len(outs); k++ {
		o := outs[k]
		c := st.clone()
		if o.apply == nil {
			e.violation(c, "PANIC", "send on closed channel")
			continue
		}
		v, okv := o.apply(c)
		setResult(c, zeroRecvs(o.idx, v, okv))
		e.work = append(e.work, c)
	}
	o := outs[0]
	if o.apply == nil {
		e.violation(st, "PANIC", "send on closed channel")
		return false
	}
	v, okv := o.apply(st)
	setResult(st, zeroRecvs(o.idx, v, okv))
	return true
}

// closeWake completes parked receivers of a channel that has just been closed.
func (e *Engine) closeWake(st *State, chID int) {
	for ti := range st.threads {
		if ti == st.cur || st.threads[ti].done {
			continue
		}
		p := st.park(ti)
		if p == nil || p.done {
			continue
		}
		for ci, c := range p.cases {
			if c.ch != nil && c.ch.Obj != nil && c.ch.Obj.ID == chID && !c.send {
				pp := *p
				pp.done, pp.idx, pp.recvVal, pp.recvOk = true, ci, e.zero(c.elemT), false
				st.setPark(ti, &pp)
				break
			}
		}
	}
}

func (e *Engine) spawn(st *State, gfn *FuncV, gargs []Value) bool {
	if gfn == nil {
		e.violation(st, "PANIC", "go of nil func")
		return false
	}
	if ov, ok := e.overrides[gfn.Fn.String()]; ok {
		gfn = &FuncV{Fn: e.pkg.Func(ov)}
	}
	if gfn.Fn.Blocks == nil {
		e.abort("go of bodyless function %s", gfn.Fn)
	}
	if !e.mayExec(gfn.Fn) {
		e.abort("UNMODELLED go of %s", gfn.Fn)
	}
	e.FuncsSeen[gfn.Fn.String()] = true
	nf := &Frame{fn: gfn.Fn, env: map[ssa.Value]Value{}, block: gfn.Fn.Blocks[0]}
	for i, p := range gfn.Fn.Params {
		nf.env[p] = gargs[i]
	}
	for i, fv := range gfn.Fn.FreeVars {
		nf.env[fv] = gfn.Bind[i]
	}
	st.threads = append(st.threads, &Thread{fr: nf})
	st.trace = append(st.trace, "go "+gfn.Fn.Name())
	return true
}

// switchThread hands the processor to the next live thread (round robin). With blocked=true the
// current thread cannot proceed; returns false when every live thread is blocked (deadlock).
func (e *Engine) switchThread(st *State, blocked bool) bool {
	if blocked {
		if !st.threads[st.cur].done {
			st.stuck++
		} else {
			st.stuck = 0
		}
	}
	st.threads[st.cur].fr = st.fr
	n := len(st.threads)
	next := -1
	for k := 1; k <= n; k++ {
		c := (st.cur + k) % n
		if !st.threads[c].done {
			next = c
			break
		}
	}
	live := 0
	for _, t := range st.threads {
		if !t.done {
			live++
		}
	}
	if next < 0 || (blocked && st.stuck > live) {
		if w := st.syncInt["quiesceWait"]; w > 0 && !st.threads[w-1].done {
			// everyone else is blocked or done: the goroutine waiting in vpQuiesce proceeds
			st.syncInt["quiesceWait"] = 0
			st.syncInt["quiesced"] = w
			st.stuck = 0
			st.cur = w - 1
			st.fr = st.threads[w-1].fr
			return true
		}
		e.Blocked++
		if st.syncInt["mustBlock"] == 1 || st.syncInt["blockedOK"] == 1 {
			e.Asserts++ // the expected-to-block obligation (vpMustBlock / vpBlockedOK) is raised and met here
			e.Discharged++
			return false
		}
		if st.threads[0].done {
			return false
		}
		where := ""
		for ti, t := range st.threads {
			if t.done {
				continue
			}
			fr := t.fr
			if ti == st.cur {
				fr = st.fr
			}
			if fr == nil || fr.fn == nil || fr.block == nil {
				where += fmt.Sprintf(" [g%d: native]", ti)
				continue
			}
			ip := fr.ip
			if ip >= len(fr.block.Instrs) {
				ip = len(fr.block.Instrs) - 1
			}
			where += fmt.Sprintf(" [g%d: %s at %s]", ti, fr.fn.Name(), e.pos(fr.block.Instrs[ip].Pos()))
		}
		e.violation(st, "DEADLOCK", "all live goroutines blocked before the harness finished:"+where)
		return false
	}
	if traceSched {
		st.trace = append(st.trace, fmt.Sprintf("g%d%s->g%d", st.cur, map[bool]string{true: "(blocked " + e.framePos(st.fr) + ")", false: ""}[blocked], next))
	}
	st.cur = next
	st.fr = st.threads[next].fr
	return true
}

var traceSched = os.Getenv("VERIF_TRACE") != ""

func (e *Engine) framePos(fr *Frame) string {
	if fr == nil || fr.fn == nil || fr.block == nil {
		return "native"
	}
	ip := fr.ip
	if ip >= len(fr.block.Instrs) {
		ip = len(fr.block.Instrs) - 1
	}
	if ip < 0 {
		ip = 0
	}
	return fr.fn.Name() + "@" + e.pos(fr.block.Instrs[ip].Pos())
}

var _ = types.Typ
