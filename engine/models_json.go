package main

import (
	"go/types"

	"golang.org/x/tools/go/ssa"
)

// strings.Index on concrete-length strings with symbolic bytes: one alternative per result.
func (e *Engine) modelStringsIndex(st *State, x ssa.Value, s, sub *StrV) bool {
	ts := e.ts
	n, m := len(s.B), len(sub.B)
	var alts []alt
	noneBefore := ts.Bool(true)
	for pos := 0; pos+m <= n; pos++ {
		match := e.strEq(&StrV{B: s.B[pos : pos+m]}, sub)
		alts = append(alts, alt{ts.And(noneBefore, match), ts.BVInt(64, int64(pos))})
		noneBefore = ts.And(noneBefore, ts.Not(match))
	}
	alts = append(alts, alt{noneBefore, ts.BVConst(64, bigInt(-1))})
	return e.forkAlts(st, x, alts)
}

func (e *Engine) strContains(s, sub *StrV) *Term {
	ts := e.ts
	n, m := len(s.B), len(sub.B)
	any := ts.Bool(false)
	for pos := 0; pos+m <= n; pos++ {
		any = ts.Or(any, e.strEq(&StrV{B: s.B[pos : pos+m]}, sub))
	}
	return any
}

// vpNode layout (harness): struct{ Key string; Kind int; Type gjson.Type; Text string; Kids []*vpNode }
// Kind: 0 leaf, 1 object, 2 array.  Type is the gjson.Type of a leaf.
func (e *Engine) nodeFields(st *State, p *PtrV) (key *StrV, kind int, typ *Term, text *StrV, kids []*PtrV) {
	n := e.load(st, p).(*StructV)
	key = n.F[0].(*StrV)
	k, ok := concreteInt(n.F[1].(*Term))
	if !ok {
		e.abort("vpNode.Kind must be concrete")
	}
	kind = k
	typ = n.F[2].(*Term)
	text = n.F[3].(*StrV)
	sl := n.F[4].(*SliceV)
	if sl.Obj != nil {
		for _, k := range e.sliceElems(st, sl) {
			kids = append(kids, k.(*PtrV))
		}
	}
	return
}

// gjsonResult builds the gjson.Result struct value for an abstract node:
// fields: Type, Raw, Str, Num, Index, Indexes. Index carries the node's object id so that
// ForEach (modelled) can find the node again; IsObject/IsArray/String run from their real SSA.
func (e *Engine) gjsonResult(st *State, resT types.Type, p *PtrV) Value {
	ts := e.ts
	res := e.zero(resT).(*StructV)
	res = &StructV{F: append([]Value(nil), res.F...)}
	_, kind, typ, text, _ := e.nodeFields(st, p)
	switch kind {
	case 0:
		res.F[0] = typ
		res.F[1] = text // Raw: canonical text for numbers (leafTokenInput uses Raw for Number)
		res.F[2] = text // Str
	case 1:
		res.F[0] = ts.BVInt(64, 5) // gjson.JSON
		res.F[1] = e.strConst("{")
	case 2:
		res.F[0] = ts.BVInt(64, 5)
		res.F[1] = e.strConst("[")
	}
	res.F[4] = ts.BVInt(64, int64(p.Obj.ID))
	e.nodeByID[p.Obj.ID] = p
	return res
}

func (e *Engine) startForEach(st *State, recv *StructV, iter *FuncV, resT types.Type) bool {
	id, ok := concreteInt(recv.F[4].(*Term))
	if !ok {
		e.abort("ForEach on non-abstract gjson.Result")
	}
	p := e.nodeByID[id]
	if p == nil {
		// a zero Result or a leaf: ForEach does nothing for non-JSON values
		return true
	}
	fr := &Frame{fn: nil, env: map[ssa.Value]Value{}, caller: st.fr,
		native: &NativeState{kind: "foreach", node: p, iter: iter, resT: resT}}
	st.fr = fr
	return true
}

func (e *Engine) stepNative(st *State) bool {
	fr := st.fr
	ns := fr.native
	if ns.kind == "sortslice" {
		return e.stepSortSlice(st)
	}
	finish := func() bool {
		st.fr = fr.caller
		return true
	}
	if ns.forced {
		ns.forced = false
		return finish()
	}
	if ns.waiting {
		ns.waiting = false
		cont := ns.ret.(*Term)
		dec := e.branch(st, cont)
		if p := e.pendingFalse; p != nil {
			p.fr.native.forced = true
		}
		if !dec {
			return finish()
		}
		ns.idx++
	}
	_, kind, _, _, kids := e.nodeFields(st, ns.node)
	if kind == 0 || ns.idx >= len(kids) {
		return finish()
	}
	resT := ns.resT
	kid := kids[ns.idx]
	kkey, _, _, _, _ := e.nodeFields(st, kid)
	keyRes := e.zero(resT).(*StructV)
	keyRes = &StructV{F: append([]Value(nil), keyRes.F...)}
	if kind == 1 {
		keyRes.F[0] = e.ts.BVInt(64, 3) // String
		keyRes.F[2] = kkey
	} else {
		keyRes.F[0] = e.ts.BVInt(64, 2) // Number
	}
	valRes := e.gjsonResult(st, resT, kid)
	ns.waiting = true
	e.enter(st, ns.iter.Fn, []Value{keyRes, valRes}, ns.iter.Bind, nil)
	return true
}

func init() {
	// vpParseSawView(reset): has gjson.Parse been handed an unsafe view since the last reset?
	harnessModels["vpParseSawView"] = func(e *Engine, st *State, x *ssa.Call, args []Value) bool {
		setRes(st, x, e.ts.Bool(st.syncInt["parseView"] == 1))
		if c, ok := args[0].(*Term); ok && c.IsConst() && !c.boolVal() {
			st.syncInt["parseView"] = 0
		}
		return true
	}
	// gjson.Result.Value(): an object materialises as a (here: empty, content not modelled)
	// map[string]any, anything else as a non-map value.
	models["(github.com/tidwall/gjson.Result).Value"] = func(e *Engine, st *State, x *ssa.Call, args []Value) bool {
		r := args[0].(*StructV)
		id, ok := concreteInt(r.F[4].(*Term))
		if ok {
			if p := e.nodeByID[id]; p != nil {
				if _, kind, _, _, _ := e.nodeFields(st, p); kind == 1 {
					o := e.newObj(st, nil, &MapV{})
					mt := types.NewMap(types.Typ[types.String], types.NewInterfaceType(nil, nil))
					setRes(st, x, &IfaceV{T: mt, V: &MapRef{Obj: o}})
					return true
				}
			}
		}
		setRes(st, x, &IfaceV{T: types.Typ[types.Float64], V: e.ts.FPConstBits(F64, 0)})
		return true
	}
	// vpRefreshView(s): for a string created by unsafeString, the text its backing bytes hold *now*
	// (what the native string header would read); any other string unchanged.
	harnessModels["vpRefreshView"] = func(e *Engine, st *State, x *ssa.Call, args []Value) bool {
		sv := args[0].(*StrV)
		if sv.View == nil || sv.View.Obj == nil {
			setRes(st, x, sv)
			return true
		}
		out := &StrV{View: sv.View}
		for _, b := range e.sliceElems(st, sv.View) {
			out.B = append(out.B, b.(*Term))
		}
		setRes(st, x, out)
		return true
	}
	harnessModels["vpToGJSON"] = func(e *Engine, st *State, x *ssa.Call, args []Value) bool {
		setRes(st, x, e.gjsonResult(st, x.Type(), args[0].(*PtrV)))
		return true
	}
	// vpRowBytes(node) : the JSON text of an abstract node, content opaque, length symbolic
	harnessModels["vpRowBytes"] = func(e *Engine, st *State, x *ssa.Call, args []Value) bool {
		ts := e.ts
		ln := ts.Var("doclen", BV(64))
		st.addPC(ts.App(BoolSort, "bvuge", ln, ts.BVInt(64, 2)), ts.App(BoolSort, "bvult", ln, ts.BVInt(64, 1<<30)))
		o := e.newObj(st, nil, &DocBytesV{Node: args[0].(*PtrV), Len: ln})
		setRes(st, x, &SliceV{Obj: o, Off: ts.BVInt(64, 0), Len: ln, Cap: ln})
		return true
	}
	parse := func(e *Engine, st *State, x *ssa.Call, args []Value) bool {
		var node *PtrV
		switch a := args[0].(type) {
		case *StrV:
			node = a.Doc
		case *SliceV:
			if a.Obj != nil {
				if db, ok := st.heap[a.Obj.ID].(*DocBytesV); ok {
					node = db.Node
				}
			}
		}
		if node == nil {
			e.abort("UNMODELLED gjson.Parse of non-abstract text")
		}
		if sv, ok := args[0].(*StrV); ok && sv.View != nil {
			st.syncInt["parseView"] = 1 // the parsed text is a view of somebody's buffer, not a copy
		}
		setRes(st, x, e.gjsonResult(st, x.Type(), node))
		return true
	}
	models["github.com/tidwall/gjson.Parse"] = parse
	models["github.com/tidwall/gjson.ParseBytes"] = parse
	models["(github.com/tidwall/gjson.Result).ForEach"] = func(e *Engine, st *State, x *ssa.Call, args []Value) bool {
		return e.startForEach(st, args[0].(*StructV), args[1].(*FuncV), x.Call.Args[0].Type())
	}
	models["(github.com/tidwall/gjson.Result).String"] = func(e *Engine, st *State, x *ssa.Call, args []Value) bool {
		r := args[0].(*StructV)
		// keys handed to ForEach callbacks are String-typed: String() is Str; other kinds: Raw
		ty := r.F[0].(*Term)
		if c, ok := concreteInt(ty); ok && c == 3 {
			setRes(st, x, r.F[2])
			return true
		}
		if c, ok := concreteInt(ty); ok && (c == 2 || c == 5) {
			setRes(st, x, r.F[1])
			return true
		}
		e.abort("gjson.Result.String on symbolic type")
		return false
	}
	// github.com/danthegoodman1/bloomsearch.unsafeString: view of bytes as string
	models["github.com/danthegoodman1/bloomsearch.unsafeString"] = func(e *Engine, st *State, x *ssa.Call, args []Value) bool {
		sl := args[0].(*SliceV)
		if sl.Obj == nil {
			setRes(st, x, &StrV{})
			return true
		}
		switch hv := st.heap[sl.Obj.ID].(type) {
		case *DocBytesV:
			setRes(st, x, &StrV{Doc: hv.Node, Len: hv.Len, View: &SliceV{Obj: sl.Obj, Off: sl.Off, Len: sl.Len, Cap: sl.Len}})
		case *ArrayV:
			out := &StrV{View: &SliceV{Obj: sl.Obj, Off: sl.Off, Len: sl.Len, Cap: sl.Len}}
			for _, b := range e.sliceElems(st, sl) {
				out.B = append(out.B, b.(*Term))
			}
			setRes(st, x, out)
		default:
			e.abort("unsafeString of %T", hv)
		}
		return true
	}
	models["strings.Index"] = func(e *Engine, st *State, x *ssa.Call, args []Value) bool {
		return e.modelStringsIndex(st, x, args[0].(*StrV), args[1].(*StrV))
	}
	models["strings.Contains"] = func(e *Engine, st *State, x *ssa.Call, args []Value) bool {
		setRes(st, x, e.strContains(args[0].(*StrV), args[1].(*StrV)))
		return true
	}
}
