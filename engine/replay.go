package main

import (
	"bytes"
	"encoding/json"
	"fmt"
	"os"
	"os/exec"
	"path/filepath"
	"sort"
	"strings"
	"time"

	"golang.org/x/tools/go/ssa"
)

type replayDoc struct {
	Property string      `json:"property"`
	Harness  string      `json:"harness"`
	Kind     string      `json:"kind"`
	Message  string      `json:"message"`
	Vector   []ReplayVal `json:"vector"`
	Trace    []string    `json:"trace,omitempty"`
	Confirm  string      `json:"confirmed_by,omitempty"`
	Native   string      `json:"native_output,omitempty"`
	Mutation string      `json:"overlay_mutation,omitempty"`
}

// confirm replays a solver counterexample against the real code before it is reported:
// (1) concrete re-execution of the SSA with every nondet pinned to the model value, and
// (2) for sequential harnesses, a native `go test` run of the same harness against /repo.
func confirm(prog *ssa.Program, pkg *ssa.Package, c harnessCfg, v *Violation, file, prop string, overlay, mutated map[string][]byte, noNative, thorough bool) replayOutcome {
	out := replayOutcome{File: file, Msg: v.Msg, Kind: "ssa-concrete"}
	if !v.HasVec {
		out.Result, out.Detail = "error", "solver produced no model for the failing path"
		return out
	}
	doc := replayDoc{Property: prop, Harness: c.Name, Kind: v.Kind, Message: v.Msg, Vector: v.Vector, Trace: v.Trace}
	os.MkdirAll(filepath.Dir(file), 0o755)
	save := func() {
		b, _ := json.MarshalIndent(doc, "", " ")
		os.WriteFile(file, b, 0o644)
	}
	save()
	// (1) concrete re-execution
	r := runHarness(prog, pkg, c, false, v.Vector)
	hit := false
	for _, w := range r.Violations {
		if w.Msg == v.Msg {
			hit = true
		}
	}
	if !hit {
		out.Result = "not-reproduced"
		out.Detail = fmt.Sprintf("concrete re-execution found %d violations, none matching", len(r.Violations))
		return out
	}
	doc.Confirm = "ssa-concrete"
	save()
	if c.NoNative || noNative {
		out.Result = "confirmed"
		return out
	}
	// (2) native
	out.Kind = "native"
	res, log, err := nativeReplay(c.Name, file, overlay, mutated)
	doc.Native = res
	if err != nil {
		out.Result, out.Detail = "error", err.Error()+": "+tail(log, 600)
		save()
		return out
	}
	switch {
	case strings.HasPrefix(res, "violated"):
		out.Result = "confirmed"
		doc.Confirm = "ssa-concrete+native"
	default:
		out.Result, out.Detail = "not-reproduced", "native run: "+res
	}
	save()
	return out
}

func tail(s string, n int) string {
	if len(s) > n {
		return s[len(s)-n:]
	}
	return s
}

// nativeReplay runs harness `name` under `go test` on /repo's working tree with the harness files
// (and the optional overlay mutation) injected by -overlay, feeding it the replay vector.
func nativeReplay(name, replayFile string, overlay, mutated map[string][]byte) (string, string, error) {
	scratch, err := os.MkdirTemp("", "vpreplay")
	if err != nil {
		return "", "", err
	}
	defer os.RemoveAll(scratch)
	repl := map[string]string{}
	i := 0
	var names []string
	for virt := range overlay {
		names = append(names, virt)
	}
	sort.Strings(names)
	var harnessNames []string
	for _, virt := range names {
		i++
		real := filepath.Join(scratch, fmt.Sprintf("f%d.go", i))
		if err := os.WriteFile(real, overlay[virt], 0o644); err != nil {
			return "", "", err
		}
		repl[virt] = real
		if strings.Contains(virt, "zz_verif_") {
			for _, l := range strings.Split(string(overlay[virt]), "\n") {
				if strings.HasPrefix(l, "func H_") {
					n := strings.TrimPrefix(l, "func ")
					if j := strings.Index(n, "("); j > 0 {
						harnessNames = append(harnessNames, n[:j])
					}
				}
			}
		}
	}
	var tb bytes.Buffer
	tb.WriteString("package bloomsearch\n\nimport (\n\t\"fmt\"\n\t\"os\"\n\t\"testing\"\n)\n\nvar vpHarnessTable = map[string]func(){\n")
	for _, h := range harnessNames {
		fmt.Fprintf(&tb, "\t%q: %s,\n", h, h)
	}
	tb.WriteString("}\n\nfunc TestVerifReplay(t *testing.T) {\n\th := vpHarnessTable[os.Getenv(\"VERIF_HARNESS\")]\n\tif h == nil {\n\t\tfmt.Println(\"VPREPLAY: error: unknown harness\")\n\t\treturn\n\t}\n\tfmt.Println(\"VPREPLAY:\", vpRunReplay(os.Getenv(\"VERIF_REPLAY\"), h))\n}\n")
	testReal := filepath.Join(scratch, "replay_test.go")
	os.WriteFile(testReal, tb.Bytes(), 0o644)
	repl[filepath.Join(repoDir, "zz_verif_replay_test.go")] = testReal
	oj, _ := json.Marshal(map[string]interface{}{"Replace": repl})
	ovFile := filepath.Join(scratch, "overlay.json")
	os.WriteFile(ovFile, oj, 0o644)

	cmd := exec.Command("go", "test", "-tags", "verif", "-vet=off", "-v", "-count=1", "-run", "^TestVerifReplay$", "-overlay", ovFile, "-timeout", "120s", ".")
	cmd.Dir = repoDir
	cmd.Env = append(goEnv(), "VERIF_HARNESS="+name, "VERIF_REPLAY="+replayFile)
	var ob bytes.Buffer
	cmd.Stdout, cmd.Stderr = &ob, &ob
	done := make(chan error, 1)
	if err := cmd.Start(); err != nil {
		return "", "", err
	}
	go func() { done <- cmd.Wait() }()
	select {
	case <-done:
	case <-time.After(300 * time.Second):
		cmd.Process.Kill()
		return "", ob.String(), fmt.Errorf("native replay timed out")
	}
	log := ob.String()
	for _, l := range strings.Split(log, "\n") {
		if strings.HasPrefix(l, "VPREPLAY: ") {
			return strings.TrimPrefix(l, "VPREPLAY: "), log, nil
		}
	}
	return "", log, fmt.Errorf("native replay produced no verdict")
}

// replayStored re-runs a stored replay file natively (MANIFEST replay_cmd_template).
func replayStored(file string) int {
	b, err := os.ReadFile(file)
	if err != nil {
		fmt.Println("cannot read replay:", err)
		return 2
	}
	var doc replayDoc
	if err := json.Unmarshal(b, &doc); err != nil {
		fmt.Println("bad replay file:", err)
		return 2
	}
	overlay, mutated, err := buildOverlay(doc.Mutation)
	if err != nil {
		fmt.Println(err)
		return 2
	}
	if strings.HasPrefix(doc.Harness, "HS_") {
		fmt.Printf("replay %s: harness %s is confirmed by concrete SSA re-execution only; re-run `./check %s quick`\n", file, doc.Harness, doc.Property)
		return 0
	}
	abs, _ := filepath.Abs(file)
	res, log, err := nativeReplay(doc.Harness, abs, overlay, mutated)
	if err != nil {
		fmt.Println("replay error:", err, tail(log, 800))
		return 2
	}
	fmt.Printf("replay %s harness=%s: %s\n", file, doc.Harness, res)
	if strings.HasPrefix(res, "violated") {
		fmt.Printf("VIOLATION property=%s replay=%s\n", doc.Property, file)
		return 1
	}
	return 0
}
