package main

import (
	"bytes"
	"encoding/json"
	"fmt"
	"os"
	"os/exec"
	"path/filepath"
	"strings"
	"time"

	"golang.org/x/tools/go/ssa"
)

type replayDoc struct {
	Property    string            `json:"property"`
	Harness     string            `json:"harness"`
	Kind        string            `json:"kind"`
	Message     string            `json:"message"`
	Vector      []ReplayVal       `json:"vector"`
	Trace       []string          `json:"trace,omitempty"`
	Confirm     string            `json:"confirmed_by,omitempty"`
	Native      string            `json:"native_output,omitempty"`
	Mutation    string            `json:"overlay_mutation,omitempty"`
	NoNativeWhy string            `json:"native_replay_not_applicable,omitempty"`
	Attempts    int               `json:"native_attempts,omitempty"`  // >1: the path runs a select with several ready cases; Go picks at random, so the native replay is repeated until it takes the failing branch
	Thorough    bool              `json:"thorough"`                   // tier of the run (vpBound/vpThorough follow it natively)
	Enable      []string          `json:"enable,omitempty"`           // native overrides switched on
	Stubs       map[string]string `json:"native_overrides,omitempty"` // /repo function -> Go stub (from //vp:override)
}

// confirm replays a solver counterexample against the real code before it is reported:
// (1) concrete re-execution of the SSA with every nondet pinned to the model value, and
// (2) for sequential harnesses, a native `go test` run of the same harness against /repo.
func confirm(prog *ssa.Program, pkg *ssa.Package, c harnessCfg, v *Violation, file, prop string, overlay, mutated map[string][]byte, noNative, thorough bool) replayOutcome {
	out := replayOutcome{File: file, Msg: v.Msg, Kind: "ssa-concrete"}
	if !v.HasVec {
		out.Result, out.Detail = "error", "solver produced no model for the failing path"
		return out
	}
	mode, why, enable := witnessMode(c)
	doc := replayDoc{Property: prop, Harness: c.Name, Kind: v.Kind, Message: v.Msg, Vector: v.Vector, Trace: v.Trace, Thorough: thorough, Mutation: mutationSpec}
	if v.RandomSelect {
		doc.Attempts = 200
	}
	if mode == "native" {
		doc.Enable, doc.Stubs = enable, map[string]string{}
		for _, k := range enable {
			doc.Stubs[k] = c.Overrides[k]
		}
	}
	os.MkdirAll(filepath.Dir(file), 0o755)
	save := func() {
		b, _ := json.MarshalIndent(doc, "", " ")
		os.WriteFile(file, b, 0o644)
	}
	save()
	// (1) concrete re-execution
	r := runHarness(prog, pkg, c, thorough, v.Vector)
	hit := false
	for _, w := range r.Violations {
		if w.Msg == v.Msg {
			hit = true
		}
	}
	if !hit {
		out.Result = "not-reproduced"
		out.Detail = fmt.Sprintf("concrete re-execution found %d violations, none matching", len(r.Violations))
		return out
	}
	doc.Confirm = "ssa-concrete"
	save()
	if mode != "native" || noNative {
		out.Result = "confirmed"
		if mode != "native" {
			out.Detail = "native replay not applicable: " + why
			doc.NoNativeWhy = why
			save()
		}
		return out
	}
	// (2) native
	out.Kind = "native"
	res, log, err := nativeReplay(c.Name, file, overlay, doc.Stubs, v.Kind)
	doc.Native = res
	if err != nil {
		out.Result, out.Detail = "error", err.Error()+": "+tail(log, 600)
		save()
		return out
	}
	switch {
	case strings.HasPrefix(res, "violated"):
		out.Result = "confirmed"
		doc.Confirm = "ssa-concrete+native"
	default:
		out.Result, out.Detail = "not-reproduced", "native run: "+res
	}
	save()
	return out
}

func tail(s string, n int) string {
	if len(s) > n {
		return s[len(s)-n:]
	}
	return s
}

// nativeReplay runs harness `name` under `go test` on /repo's working tree with the harness files
// (and the optional overlay mutation) injected by -overlay, feeding it the replay vector.
func nativeReplay(name, replayFile string, overlay map[string][]byte, stubs map[string]string, kind string) (string, string, error) {
	scratch, err := os.MkdirTemp("", "vpreplay")
	if err != nil {
		return "", "", err
	}
	defer os.RemoveAll(scratch)
	ovFile, err := writeNativeOverlay(scratch, overlay, stubs)
	if err != nil {
		return "", "", err
	}

	testTimeout := "120s"
	if kind == "DEADLOCK" {
		testTimeout = "20s" // a native run that does not finish is the deadlock reproduced
	}
	cmd := exec.Command("go", "test", "-tags", "verif", "-vet=off", "-v", "-count=1", "-run", "^TestVerifReplay$", "-overlay", ovFile, "-timeout", testTimeout, ".")
	cmd.Dir = repoDir
	cmd.Env = append(goEnv(), "VERIF_HARNESS="+name, "VERIF_REPLAY="+replayFile)
	var ob bytes.Buffer
	cmd.Stdout, cmd.Stderr = &ob, &ob
	done := make(chan error, 1)
	if err := cmd.Start(); err != nil {
		return "", "", err
	}
	go func() { done <- cmd.Wait() }()
	select {
	case <-done:
	case <-time.After(300 * time.Second):
		cmd.Process.Kill()
		return "", ob.String(), fmt.Errorf("native replay timed out")
	}
	log := ob.String()
	for _, l := range strings.Split(log, "\n") {
		if strings.HasPrefix(l, "VPREPLAY: ") {
			return strings.TrimPrefix(l, "VPREPLAY: "), log, nil
		}
	}
	if kind == "DEADLOCK" && (strings.Contains(log, "test timed out after") || strings.Contains(log, "all goroutines are asleep")) {
		return "violated: the native run deadlocked (go test: " + testTimeout + " without finishing)", log, nil
	}
	return "", log, fmt.Errorf("native replay produced no verdict")
}

// replayStored re-runs a stored replay file natively (MANIFEST replay_cmd_template).
func replayStored(file string) int {
	b, err := os.ReadFile(file)
	if err != nil {
		fmt.Println("cannot read replay:", err)
		return 2
	}
	var doc replayDoc
	if err := json.Unmarshal(b, &doc); err != nil {
		fmt.Println("bad replay file:", err)
		return 2
	}
	overlay, mutated, err := buildOverlay(doc.Mutation)
	if err != nil {
		fmt.Println(err)
		return 2
	}
	if strings.HasPrefix(doc.Harness, "HS_") || doc.NoNativeWhy != "" {
		fmt.Printf("replay %s: harness %s is confirmed by concrete SSA re-execution only; re-run `./check %s quick`\n", file, doc.Harness, doc.Property)
		return 0
	}
	abs, _ := filepath.Abs(file)
	_ = mutated
	res, log, err := nativeReplay(doc.Harness, abs, overlay, doc.Stubs, doc.Kind)
	if err != nil {
		fmt.Println("replay error:", err, tail(log, 800))
		return 2
	}
	fmt.Printf("replay %s harness=%s: %s\n", file, doc.Harness, res)
	if strings.HasPrefix(res, "violated") {
		fmt.Printf("VIOLATION property=%s replay=%s\n", doc.Property, file)
		return 1
	}
	return 0
}
