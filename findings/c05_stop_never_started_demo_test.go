package bloomsearch

// Demonstration of the C05 finding: a batch accepted by IngestRows before Start is never answered
// when the engine is stopped without ever having been started, although Stop returns nil.
//   go test -overlay <{"Replace":{"/repo/zz_c05_demo_test.go": this file}}> -run TestC05StopNeverStartedDemo .

import (
	"context"
	"testing"
	"time"
)

func TestC05StopNeverStartedDemo(t *testing.T) {
	cfg := DefaultBloomSearchEngineConfig()
	engine, err := NewBloomSearchEngine(cfg, NewMemoryMetaStore(), NewFileSystemDataStore(t.TempDir()))
	if err != nil {
		t.Fatal(err)
	}
	done := make(chan error, 2)
	if err := engine.IngestRows(context.Background(), []map[string]any{{"a": "x"}}, done); err != nil {
		t.Fatalf("IngestRows before Start: %v", err)
	}
	if err := engine.Stop(context.Background()); err != nil {
		t.Fatalf("Stop: %v", err)
	}
	select {
	case <-done:
	case <-time.After(2 * time.Second):
		t.Fatalf("C05: IngestRows returned nil, Stop returned nil, and the batch was never answered")
	}
	if len(done) != 0 {
		t.Fatalf("C05: batch answered twice")
	}
}
