package bloomsearch

// Demonstration of the C08 finding: Stop can return its deadline error while the flush context is
// still live, so a flush queued behind a wedged one starts new store work (CreateFile) after Stop
// has returned. The deadline context implements AfterFunc itself and runs callbacks late, which the
// context package allows ("any context implementation").
//   go test -overlay <{"Replace":{"/repo/zz_c08_demo_test.go": this file}}> -run TestC08StopDeadlineDemo .

import (
	"context"
	"io"
	"sync"
	"sync/atomic"
	"testing"
	"time"
)

// A foreign Context implementation (it must not embed a context-package context, or the package
// recognises the embedded cancelCtx and registers children directly).
type c08LateCtx struct {
	done    chan struct{}
	mu      sync.Mutex
	err     error
	pending []func()
}

func newC08LateCtx(d time.Duration) *c08LateCtx {
	c := &c08LateCtx{done: make(chan struct{})}
	time.AfterFunc(d, func() {
		c.mu.Lock()
		c.err = context.DeadlineExceeded
		c.mu.Unlock()
		close(c.done)
	})
	return c
}
func (c *c08LateCtx) Done() <-chan struct{}       { return c.done }
func (c *c08LateCtx) Deadline() (time.Time, bool) { return time.Time{}, false }
func (c *c08LateCtx) Value(any) any               { return nil }
func (c *c08LateCtx) Err() error {
	c.mu.Lock()
	defer c.mu.Unlock()
	return c.err
}

func (c *c08LateCtx) AfterFunc(f func()) func() bool {
	c.mu.Lock()
	c.pending = append(c.pending, f)
	c.mu.Unlock()
	return func() bool { return true }
}

type c08Store struct {
	DataStore
	creates atomic.Int64
	release chan struct{}
}

func (s *c08Store) CreateFile(ctx context.Context) (io.WriteCloser, []byte, error) {
	n := s.creates.Add(1)
	if n == 1 {
		<-s.release // a wedged, ctx-ignoring store call
	}
	return s.DataStore.CreateFile(ctx)
}

func TestC08StopDeadlineDemo(t *testing.T) {
	cfg := DefaultBloomSearchEngineConfig()
	cfg.MaxBufferedRows = 1
	cfg.IngestBufferSize = 1
	store := &c08Store{DataStore: NewFileSystemDataStore(t.TempDir()), release: make(chan struct{})}
	engine, err := NewBloomSearchEngine(cfg, NewMemoryMetaStore(), store)
	if err != nil {
		t.Fatal(err)
	}
	engine.Start()
	for i := 0; i < 2; i++ { // first flush wedges in CreateFile, second is queued behind it
		if err := engine.IngestRows(context.Background(), []map[string]any{{"a": "x"}}, make(chan error, 1)); err != nil {
			t.Fatal(err)
		}
	}
	for store.creates.Load() < 1 || len(engine.flushChan) < 1 {
		time.Sleep(time.Millisecond)
	}
	if err := engine.Stop(newC08LateCtx(50 * time.Millisecond)); err == nil {
		t.Fatal("Stop returned nil although the store is wedged")
	}
	// Stop has returned its deadline error. The wedged call now comes back.
	createsAtReturn := store.creates.Load()
	close(store.release)
	time.Sleep(300 * time.Millisecond)
	if got := store.creates.Load(); got != createsAtReturn {
		t.Fatalf("C08: %d new CreateFile call(s) were started after Stop had returned its deadline error", got-createsAtReturn)
	}
}
