package bloomsearch

// Demonstration of the open known finding C16-abort-after-pointer-reissued.
//   go test -overlay <{"Replace":{"/repo/zz_c16_demo_test.go": this file}}> -run TestC16AbortAfterReissueDemo .

import (
	"context"
	"os"
	"testing"
)

func TestC16AbortAfterReissueDemo(t *testing.T) {
	store := NewFileSystemDataStore(t.TempDir())
	store.drawFileName = func() string { return "x" }
	ctx := context.Background()
	a, pa, err := store.CreateFile(ctx)
	if err != nil {
		t.Fatal(err)
	}
	if err := store.TombstoneFile(ctx, pa); err != nil { // A's pointer is tombstoned while A is still open
		t.Fatal(err)
	}
	b, pb, err := store.CreateFile(ctx) // the name is drawn again
	if err != nil || string(pa) != string(pb) {
		t.Fatalf("expected the same name to be re-issued: %v", err)
	}
	b.Write([]byte("payload of B"))
	if err := b.Close(); err != nil {
		t.Fatal(err)
	}
	a.(interface{ Abort() error }).Abort()
	if _, err := os.Stat(string(pb)); err != nil {
		t.Fatalf("C16: B's published file (Close succeeded, never tombstoned afterwards) is gone after A's Abort: %v", err)
	}
}
