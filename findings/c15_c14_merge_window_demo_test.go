package bloomsearch

// Demonstration of the open known findings C15-merge-window-duplicates / C14-fs-merge-window-duplicates:
// with FileSystemDataStore as MetaStore, between the publication of a merge's output (its Close)
// and the removal of the merged sources (FileSystemDataStore.Update) the directory holds both, and
// a fresh engine over a copy of the directory taken at that moment (a process crash there), or a
// query scanning at that moment, returns every merged row twice with a nil error.
//   go test -overlay <{"Replace":{"/repo/zz_c15_demo_test.go": this file}}> -run TestC15MergeWindowDemo .

import (
	"context"
	"io"
	"os"
	"path/filepath"
	"testing"
)

type c15SnapStore struct {
	*FileSystemDataStore
	dir, snap string
	armed     bool
	took      bool
}

type c15SnapWriter struct {
	io.WriteCloser
	s *c15SnapStore
}

func (w *c15SnapWriter) Close() error {
	err := w.WriteCloser.Close()
	if err == nil && w.s.armed && !w.s.took { // the merge output has just been published
		w.s.took = true
		entries, _ := os.ReadDir(w.s.dir)
		for _, e := range entries {
			b, _ := os.ReadFile(filepath.Join(w.s.dir, e.Name()))
			os.WriteFile(filepath.Join(w.s.snap, e.Name()), b, 0o600)
		}
	}
	return err
}
func (w *c15SnapWriter) Abort() error { return w.WriteCloser.(interface{ Abort() error }).Abort() }

func (s *c15SnapStore) CreateFile(ctx context.Context) (io.WriteCloser, []byte, error) {
	w, p, err := s.FileSystemDataStore.CreateFile(ctx)
	if err != nil {
		return nil, nil, err
	}
	return &c15SnapWriter{w, s}, p, nil
}

func TestC15MergeWindowDemo(t *testing.T) {
	dir, snap := t.TempDir(), t.TempDir()
	fsStore := NewFileSystemDataStore(dir)
	store := &c15SnapStore{FileSystemDataStore: fsStore, dir: dir, snap: snap}
	cfg := DefaultBloomSearchEngineConfig()
	engine, err := NewBloomSearchEngine(cfg, store, store)
	if err != nil {
		t.Fatal(err)
	}
	engine.Start()
	for _, id := range []string{"a", "b"} {
		done := make(chan error, 1)
		if err := engine.IngestRows(context.Background(), []map[string]any{{"id": id}}, done); err != nil {
			t.Fatal(err)
		}
		if err := engine.Flush(context.Background()); err != nil {
			t.Fatal(err)
		}
		if err := <-done; err != nil {
			t.Fatal(err)
		}
	}
	store.armed = true
	if _, err := engine.Merge(context.Background()); err != nil {
		t.Fatal(err)
	}
	engine.Stop(context.Background())
	if !store.took {
		t.Skip("nothing was merged")
	}
	// a new engine over the directory as it was inside the window
	fresh, err := NewBloomSearchEngine(cfg, NewFileSystemDataStore(snap), NewFileSystemDataStore(snap))
	if err != nil {
		t.Fatal(err)
	}
	res, err := fresh.Query(context.Background(), NewQuery().Build())
	if err != nil {
		t.Fatal(err)
	}
	seen := map[string]int{}
	for res.Next() {
		seen[res.Row()["id"].(string)]++
	}
	if res.Err() != nil {
		t.Fatalf("query error %v", res.Err())
	}
	for id, n := range seen {
		if n != 1 {
			t.Fatalf("C15/C14: row %q is visible %d times after a crash inside the merge window (Err() == nil)", id, n)
		}
	}
}
