package bloomsearch

// Demonstration of the C20 finding (Results.Next reporting a clean completion for a cancelled
// query that dropped rows). Run against /repo with
//   go test -overlay <{"Replace":{"/repo/zz_c20_demo_test.go": this file}}> -run TestC20NextRaceDemo .
// The window between Next's two selects is forced deterministically: the query's internal context
// is wrapped so that the evaluation of ctx.Done() for the *second* select first lets the other
// goroutines of the schedule run to completion (the caller cancels; the pipeline observes the
// cancellation, drops its remaining rows and winds down through markWorkersDone). When Next then
// enters the select both cases are ready; Go picks one at random, so the loop makes the faulty
// choice practically certain to occur on the unfixed code and impossible on the fixed code.

import (
	"context"
	"errors"
	"testing"
)

type c20HookCtx struct {
	context.Context
	calls  int
	onDone func()
}

func (c *c20HookCtx) Done() <-chan struct{} {
	c.calls++
	if c.calls == 2 && c.onDone != nil {
		c.onDone()
	}
	return c.Context.Done()
}

func TestC20NextRaceDemo(t *testing.T) {
	wrong := 0
	const runs = 200
	for i := 0; i < runs; i++ {
		caller, cancelCaller := context.WithCancel(context.Background())
		r := newResults(caller)
		dropped := false
		r.ctx = &c20HookCtx{Context: r.ctx, onDone: func() {
			cancelCaller() // the caller cancels the query ...
			// ... a block worker with matched rows in hand observes it and drops them ...
			if r.ctx.Err() != nil {
				dropped = true
			}
			// ... and the pipeline winds down.
			r.markWorkersDone()
		}}
		if r.Next() {
			t.Fatalf("Next returned a row that was never delivered")
		}
		if !dropped {
			t.Fatalf("demo did not reach the window")
		}
		if err := r.Err(); err == nil {
			wrong++
		} else if !errors.Is(err, context.Canceled) {
			t.Fatalf("unexpected terminal error %v", err)
		}
		r.Close()
		cancelCaller()
	}
	if wrong > 0 {
		t.Fatalf("C20: in %d of %d runs a query cancelled by its caller (which dropped matched rows) ended with Err() == nil", wrong, runs)
	}
}
