#!/bin/sh
# usage: tools/try_patch.sh <patch.diff> <prop> [tier]   — applies the patch to /repo, runs the check with its
# evidence/replays redirected (VERIF_SELFTEST_OUT), and always restores /repo.
P="$(realpath "$1")"; PROP="$2"; TIER="${3:-quick}"
cd /verif
git -C /repo diff --quiet || { echo "/repo is dirty"; exit 3; }
git -C /repo apply "$P" || { echo "patch does not apply"; exit 3; }
OUT=$(mktemp -d /tmp/vp_try.XXXXXX)
VERIF_SELFTEST_OUT="$OUT" VERIF_SEED=1 timeout ${TRY_TIMEOUT:-900} ./check "$PROP" "$TIER" 2>&1 | grep -v "^      ABORT" | tail -${TRY_TAIL:-8}
RC=$?
git -C /repo checkout -- .
rm -rf "$OUT"
exit $RC
