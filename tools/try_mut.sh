#!/bin/sh
# usage: tools/try_mut.sh <mutant-id from /tmp/vpmut/survivors.json> <prop> [harness-substring] — overlay mutant, /repo untouched
ID="$1"; PROP="$2"; H="${3:-}"
REC=$(python3 -c "
import json,sys
s={c['id']:c for c in json.load(open('/tmp/vpmut/survivors.json'))['survivors']}
c=s['$ID']; sys.stdout.write(f'{c[\"file\"]}:::{c[\"old\"]}:::{c[\"new\"]}')")
OUT=$(mktemp -d /tmp/vp_try.XXXXXX)
cd /verif
VERIF_SELFTEST_OUT="$OUT" VERIF_SEED=1 timeout ${TRY_TIMEOUT:-1500} bin/gosmt -prop "$PROP" -tier quick -harness "$H" -j ${TRY_J:-6} -mut "$REC" 2>&1 | grep -v "^      ABORT" | tail -${TRY_TAIL:-3} | cut -c1-260
rm -rf "$OUT"
