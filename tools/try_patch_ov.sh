#!/bin/sh
# usage: tools/try_patch_ov.sh <patch.diff> <prop> [tier]  — like try_patch.sh but /repo is never touched:
# the patch is applied to a scratch worktree and the engine overlays the files that differ (-mut dir:<wt>).
# Safe to run several at once; used while other self-tests read /repo.
P="$(realpath "$1")"; PROP="$2"; TIER="${3:-quick}"
W=$(mktemp -d /tmp/vp_ovwt.XXXXXX); rmdir $W
git -C /repo worktree add --detach $W HEAD >/dev/null 2>&1 || exit 3
(cd $W && git apply "$P") || { echo "patch does not apply"; git -C /repo worktree remove --force $W; exit 3; }
OUT=$(mktemp -d /tmp/vp_try.XXXXXX)
cd /verif
VERIF_SELFTEST_OUT="$OUT" VERIF_SEED=1 timeout ${TRY_TIMEOUT:-900} bin/gosmt -prop "$PROP" -tier "$TIER" -j ${TRY_J:-6} -mut "dir:$W" 2>&1 | grep -v "^      ABORT" | tail -${TRY_TAIL:-8}
git -C /repo worktree remove --force $W
rm -rf "$OUT"
