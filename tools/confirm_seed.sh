#!/bin/sh
# usage: tools/confirm_seed.sh <srcworktree> <prop> <name>
# Confirms a seeded change independently in a fresh scratch worktree of /repo's HEAD:
#  (a) package builds and the unedited existing suite passes with the change,
#  (b) the demonstration fails with the change, (c) passes without it.
# On success files it under /verif/seeded/<name>/ (patch.diff, demo test, notes, confirm.log).
SRC="$1"; PROP="$2"; NAME="$3"
export GOFLAGS=-mod=mod GOPROXY=off GOTOOLCHAIN=local
GO=/opt/veriftools/go1.26.8/bin/go
D=/verif/seeded/$NAME; mkdir -p $D
(cd $SRC && git diff -- . ':!zz_seed_demo_test.go') > $D/patch.diff
cp $SRC/zz_seed_demo_test.go $D/zz_seed_demo_test.go
[ -f $SRC/SEED_NOTES.md ] && cp $SRC/SEED_NOTES.md $D/SEED_NOTES.md
W=/tmp/confirm_$NAME; git -C /repo worktree remove --force $W 2>/dev/null
git -C /repo worktree add --detach $W HEAD >/dev/null 2>&1 || exit 3
LOG=$D/confirm.log; : > $LOG
cd $W
git apply $D/patch.diff || { echo "patch does not apply" | tee -a $LOG; exit 3; }
echo "## existing suite with the change (demo absent)" >> $LOG
$GO test -vet=off -count=1 -timeout 25m ./... >> $LOG 2>&1; A=$?
cp $D/zz_seed_demo_test.go .
echo "## demo with the change" >> $LOG
$GO test -vet=off -count=1 -timeout 10m -run 'TestSeedDemo$' . 2>&1 | tail -25 >> $LOG; 
$GO test -vet=off -count=1 -timeout 10m -run 'TestSeedDemo$' . >/dev/null 2>&1; B=$?
git apply -R $D/patch.diff
echo "## demo without the change" >> $LOG
$GO test -vet=off -count=1 -timeout 10m -run 'TestSeedDemo$' . 2>&1 | tail -5 >> $LOG
$GO test -vet=off -count=1 -timeout 10m -run 'TestSeedDemo$' . >/dev/null 2>&1; C=$?
cd /; git -C /repo worktree remove --force $W
echo "suite_with_change_exit=$A demo_with_change_exit=$B demo_without_change_exit=$C" | tee -a $LOG
[ $A -eq 0 ] && [ $B -ne 0 ] && [ $C -eq 0 ] && echo CONFIRMED || { echo NOT-CONFIRMED; exit 1; }
