#!/usr/bin/env python3
# Prints the brief given to an independent sub-agent asked to break one property (nothing from
# /verif but the property text goes in).  usage: seed_prompt.py C13 /tmp/seed/C13 [extra hint]
import json, sys
pid, wt = sys.argv[1], sys.argv[2]
variant = sys.argv[3] if len(sys.argv) > 3 else ""
p = None
for l in open('/verif/properties.jsonl'):
    q = json.loads(l)
    if q['id'] == pid:
        p = q
assert p
print(f"""You are helping to evaluate a verification effort for the Go library danthegoodman1/bloomsearch (a keyword search engine storing JSON rows in a custom block file format with hierarchical bloom filters, minmax prefilters, async ingest/flush and file merging).

You have your own scratch git worktree of the repository at {wt} (work ONLY there; never touch /repo or /verif, never read anything under /verif). There is no network.

Toolchain (every shell call needs this, env is not kept):
  export GOFLAGS=-mod=mod GOPROXY=off GOTOOLCHAIN=local; cd {wt}; go1.26.8 test -vet=off -count=1 -timeout 25m ./...
(the whole suite takes about 10 seconds.)

The property that should hold of the library:

  Title: {p['title']}
  Statement: {p['statement']}
  Quantified over: {p['quantifier']['text']}
  Code it is anchored in: {json.dumps(p['anchors'].get('files'))}; mechanisms: {json.dumps([m.get('name') + ' @ ' + m.get('where','') for m in p['anchors'].get('mechanism', [])])}

Your task: make a small, realistic change to the library's NON-test source (the kind of slip or "optimisation" a maintainer could plausibly commit) that BREAKS this property, while
  (1) the package still compiles,
  (2) the complete existing test suite still passes with your change (run it all at the end, unedited; do not modify or delete existing tests), and
  (3) the breakage needs something specific to manifest — a particular interleaving, a crash or fault at a particular point, a multi-step sequence of operations, an unusual/boundary input, or two cooperating sites that each look fine alone — NOT something ordinary use would expose at once.
{variant}
Then write a demonstration: a new Go test file {wt}/zz_seed_demo_test.go (package bloomsearch, may use unexported identifiers; one test function TestSeedDemo) that FAILS with your change and PASSES on the unmodified code. Make it deterministic (no reliance on lucky timing: use channels/hooks in test doubles such as custom DataStore/MetaStore/context implementations to force the interleaving; repeat loops are acceptable only if failure is then practically certain). Verify both directions yourself: run the demo with your change (must fail), then take the change out with `git diff -- . ':!zz_seed_demo_test.go' > seed.patch; git apply -R seed.patch`, run the demo (must pass), then `git apply seed.patch`. NEVER use `git stash` (the stash is shared between all worktrees of this repository and other people are working in sibling worktrees at the same time).

Deliverables, left in the worktree when you finish:
  - the source change applied in the working tree (uncommitted),
  - {wt}/zz_seed_demo_test.go,
  - {wt}/SEED_NOTES.md: which file/function you changed and why it breaks the property, what exactly is needed for it to manifest, and the exact commands you ran with their outcomes (full suite with change: pass; demo with change: fail; demo without change: pass).
Do not commit. Do not create other files outside the worktree. Keep the change minimal (ideally under ~15 changed lines). In your final answer, summarise the change in 3-5 lines.""")
