#!/usr/bin/env python3
"""Mutation smoke suite: applies each compiling single-edit mutant of tools/mutants_<prop>.txt as a
go/packages overlay (the /repo tree is never touched) and expects the property's check to report a
replayed VIOLATION. Usage: tools/selftest.py C04 [--native]"""
import subprocess, sys, os, time
prop = sys.argv[1]
native = "--native" in sys.argv
here = os.path.dirname(os.path.dirname(os.path.abspath(__file__)))
txt = open(os.path.join(here, "tools", "mutants_%s.txt" % prop)).read()
# records are separated by a line starting with "<file>.go:::" ; fields by ":::"
recs, cur = [], None
for line in txt.split("\n"):
    head = line.split(":::")[0]
    if ":::" in line and head.endswith(".go") and "\t" not in head and " " not in head:
        if cur is not None: recs.append(cur)
        cur = line
    elif cur is not None:
        cur += "\n" + line
if cur: recs.append(cur.rstrip("\n"))
caught = 0
for i, r in enumerate(recs):
    t0 = time.time()
    cmd = [os.path.join(here, "bin", "gosmt"), "-prop", prop, "-mut", r]
    if not native: cmd.append("-noreplay")
    p = subprocess.run(cmd, capture_output=True, text=True, cwd=here, timeout=3600)
    ok = p.returncode == 1 and "VIOLATION property=%s" % prop in p.stdout
    caught += ok
    first = r.split(":::")[0] + ": " + r.split(":::")[1].strip().split("\n")[0][:70]
    msgs = [l.strip() for l in p.stdout.split("\n") if "counterexample" in l or "INCONCLUSIVE" in l][:2]
    print("%s mutant %d (%s) rc=%d %.0fs %s" % ("CAUGHT" if ok else "MISSED", i + 1, first, p.returncode, time.time() - t0, msgs[:1]))
print("%d/%d caught" % (caught, len(recs)))
