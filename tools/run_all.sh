#!/bin/sh
# usage: tools/run_all.sh [quick|thorough] [ids...]  — runs the registered checks on /repo as it is, one after another
cd /verif
TIER="${1:-quick}"; shift
IDS="$@"
[ -z "$IDS" ] && IDS=$(python3 -c "import json;print(' '.join(c['property_id'] for c in json.load(open('MANIFEST.json'))['checks']))")
for p in $IDS; do
  S=$(date +%s)
  VERIF_SEED=1 VERIF_TIER=$TIER ./check $p $TIER > /tmp/run_all_$p.log 2>&1; RC=$?
  echo "$p exit=$RC $(( $(date +%s) - S ))s $(tail -1 /tmp/run_all_$p.log | cut -c1-230)"
done
