#!/usr/bin/env python3
"""Regenerates /verif/MANIFEST.json from the table below (kept in one place so the claimed
list, the not_applicable list and the level notes cannot drift apart)."""
import json, os, sys
HERE = os.path.dirname(os.path.dirname(os.path.abspath(__file__)))
ENV = "GOFLAGS=-mod=mod GOPROXY=off GOTOOLCHAIN=local"
GO = "/opt/veriftools/go1.26.8/bin/go"

TECH = "bounded SMT-based symbolic execution of the real Go SSA (own go/ssa->SMT-LIB2 executor, z3 + cvc5), counterexamples replayed natively"

# id -> (level text, level note, design ref)
CLAIMED = {}
NA = {}

def claim(pid, text, note, ref, technique=TECH):
    CLAIMED[pid] = (text, note, ref, technique)

exec(open(os.path.join(HERE, "tools", "claims.py")).read())

props = [json.loads(l)["id"] for l in open(os.path.join(HERE, "properties.jsonl"))]
checks = []
for pid in props:
    if pid in CLAIMED:
        text, note, ref, tech = CLAIMED[pid]
        checks.append({
            "property_id": pid,
            "quick_cmd": "./check %s quick" % pid,
            "thorough_cmd": "./check %s thorough" % pid,
            "evidence_file": "/verif/evidence/%s.json" % pid,
            "replay_cmd_template": "bin/gosmt -replay {path}",
            "engine": "gosmt",
            "level_claimed": {"category": "model_checking", "text": text, "design_ref": ref},
            "level_note": note,
            "technique": tech,
        })
na = [{"property_id": p, "reason": NA.get(p, "no check registered yet in this build; planned per DESIGN.md section 9")} for p in props if p not in CLAIMED]
m = {
    "version": 1,
    "setup_cmd": "cd /verif/engine && %s %s build -o ../bin/gosmt . && cd /repo && %s %s build ./... && %s %s test -vet=off -count=1 -run '^$' ." % (ENV, GO, ENV, GO, ENV, GO),
    "hooks": {
        "guard": "verif",
        "enable": "checks load /repo with -tags=verif and inject /verif/harness/*.go as overlay files /repo/zz_verif_*.go (go/packages Overlay for the encoder, go test -overlay for native replay); /repo itself is not modified",
        "baseline_off_cmd": "cd /repo && %s %s test -vet=off -count=1 -timeout 25m ./..." % (ENV, GO),
        "source_commits": [],
        "add_only": True,
    },
    "engines": [{
        "name": "gosmt",
        "path": "/verif/engine",
        "serves_properties": sorted(CLAIMED),
        "kind_free_text": "symbolic executor for Go written for this task: loads /repo (+ harness overlay) with go/packages, builds go/ssa, interprets the SSA of the real functions with SMT terms (bit-vectors, FloatingPoint, arrays), forks on feasible branches, discharges every assertion and Go run-time check with z3 4.8.12 / cvc5 1.0 (portfolio), replays each counterexample concretely (SSA re-execution + native go test), and on every run executes a seeded sample of complete symbolic paths natively with go test and compares nondets consumed, assertion sequence and verdict (translation validation of the encoding against the build)",
    }],
    "checks": checks,
    "not_applicable": na,
    "notes": "Every check is a bounded symbolic check (never a proof): bounds per harness are in the evidence file. Exit 0 = all obligations unsat within bounds; exit 1 + VIOLATION = natively/concretely replayed counterexample; exit 2 = inconclusive (solver unknown, unwinding bound hit, unmodelled call, vacuous harness) and is never reported as a pass. known_findings.json lists genuine defects (fixed ones suppress nothing).",
}
json.dump(m, open(os.path.join(HERE, "MANIFEST.json"), "w"), indent=1)
print("claimed:", sorted(CLAIMED), "n/a:", [x["property_id"] for x in na])
