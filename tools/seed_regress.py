#!/usr/bin/env python3
"""Re-runs every seeded change under /verif/seeded against the check of its property (quick tier)
without touching /repo (tools/try_patch_ov.sh: scratch worktree + engine overlay) and reports the
ones that are no longer reported as a VIOLATION.  usage: tools/seed_regress.py [--jobs N] [ids...]
A self-test of the machinery, not a registered check."""
import json, os, subprocess, sys, concurrent.futures as cf, time
V = "/verif"
args = sys.argv[1:]
jobs = 3
if "--jobs" in args:
    i = args.index("--jobs"); jobs = int(args[i + 1]); del args[i:i + 2]
ids = args or sorted(os.listdir(V + "/seeded"))

def run(sid):
    meta = json.load(open(f"{V}/seeded/{sid}/meta.json"))
    det = meta.get("detected_by", "")
    prop = det.split()[0] if det[:1] == "C" else meta["property"]   # the check that is recorded as catching it
    t0 = time.time()
    env = dict(os.environ, TRY_TIMEOUT="2400", TRY_J="5", TRY_TAIL="40")
    p = subprocess.run([V + "/tools/try_patch_ov.sh", f"{V}/seeded/{sid}/patch.diff", prop, "quick"], capture_output=True, text=True, env=env)
    out = p.stdout
    viol = [l for l in out.split("\n") if l.startswith("VIOLATION")]
    return sid, prop, bool(viol), round(time.time() - t0), (out.strip().split("\n") or [""])[-1][:160]

with cf.ThreadPoolExecutor(jobs) as ex:
    res = list(ex.map(run, ids))
missed = [r for r in res if not r[2]]
for r in res:
    print(("caught " if r[2] else "MISSED ") + f"{r[0]} by {r[1]} ({r[3]}s)" + ("" if r[2] else "  " + r[4]), flush=True)
print(f"{len(res) - len(missed)}/{len(res)} seeded changes reported as VIOLATION")
sys.exit(1 if missed else 0)
