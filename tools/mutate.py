#!/usr/bin/env python3
"""Mutation sweep (a self-test of the machinery, not a registered check).

Phase 1 generates single-line mutants of /repo's non-test sources (relational / logical operator
swaps, off-by-one constants, dropped call statements, flipped boolean returns) and keeps those that
still compile AND pass the unedited existing test suite — the 'realistic' breakages the brief asks
about — using scratch worktrees outside /repo and /verif (removed afterwards).
Phase 2 runs, for every survivor, the checks mapped to its file through the overlay option of the
engine (-mut: /repo is never touched) and records which check reports a VIOLATION.

usage: tools/mutate.py gen|filter|run|report [--files a.go,b.go] [--limit N] [--jobs N]
state under /tmp/vpmut (candidates.json, survivors.json, results.json)."""
import json, os, re, subprocess, sys, shutil, concurrent.futures as cf, time, hashlib

REPO = "/repo"
VERIF = "/verif"
OUT = "/tmp/vpmut"
GO = "/opt/veriftools/go1.26.8/bin/go"
ENV = dict(os.environ, GOFLAGS="-mod=mod", GOPROXY="off", GOTOOLCHAIN="local")
FILEMAP = {
    "merge.go": ["C11", "C12", "C13", "C17", "C18"],
    "ingest.go": ["C05", "C06", "C07", "C08", "C09", "C10", "C18", "C26"],
    "flush.go": ["C05", "C06", "C07", "C08", "C17"],
    "engine.go": ["C05", "C08", "C09", "C27"],
    "chan_helpers.go": ["C05", "C07", "C08"],
    "query_exec.go": ["C21", "C22", "C23", "C24", "C14", "C01", "C02"],
    "query_results.go": ["C20", "C22", "C23"],
    "query_handles.go": ["C21"],
    "row_matcher.go": ["C01", "C02", "C03"],
    "tokenizer.go": ["C01", "C02"],
    "file_format.go": ["C17", "C19", "C24", "C03"],
    "file_system_store.go": ["C15", "C16"],
    "memory_meta_store.go": ["C14"],
    "min_max.go": ["C04"],
    "query.go": ["C25", "C02", "C04"],
    "codec_pool.go": ["C03"],
    "meta_store.go": ["C13"],
}

SWAPS = [(" <= ", " < "), (" < ", " <= "), (" >= ", " > "), (" > ", " >= "), (" == ", " != "), (" != ", " == "),
         (" && ", " || "), (" || ", " && "), (" + 1", " + 2"), (" - 1", ""), ("return true", "return false"),
         ("return false", "return true"), (" + ", " - ")]
CALLSTMT = re.compile(r"^\t+(defer )?[A-Za-z_][\w\.]*\([^{}]*\)$")


def gen(files):
    cands = []
    for f in files:
        src = open(os.path.join(REPO, f)).read()
        lines = src.split("\n")
        in_block_comment = False
        for i, line in enumerate(lines):
            s = line.strip()
            if s.startswith("/*"):
                in_block_comment = True
            if in_block_comment:
                if "*/" in s:
                    in_block_comment = False
                continue
            if not s or s.startswith("//") or "logger." in s or s.startswith("import") or s.startswith("package"):
                continue
            code = line.split("//")[0].rstrip()
            if '"' in code and code.count('"') >= 2:
                # do not touch string literals: mutate only outside the quotes (skip the line if ambiguous)
                if re.search(r'"[^"]*( <= | < | >= | > | == | != | && | \|\| | \+ | - )[^"]*"', code):
                    continue
            if src.count(line + "\n") != 1:
                continue  # the overlay replaces the first occurrence: keep unambiguous lines only
            for a, b in SWAPS:
                if a in code:
                    idx = code.index(a)
                    new = code[:idx] + b + code[idx + len(a):] + line[len(code):]
                    if new != line:
                        cands.append({"file": f, "line": i + 1, "old": line, "new": new, "op": a.strip() + "->" + (b.strip() or "(drop)")})
            if CALLSTMT.match(code) and not s.startswith("return") and "Unlock" not in s and "Lock()" not in s:
                indent = line[:len(line) - len(line.lstrip())]
                cands.append({"file": f, "line": i + 1, "old": line, "new": indent + "_ = 0 // dropped: " + s[:60].replace("//", ""), "op": "drop-call"})
    # de-duplicate and give ids
    seen, out = set(), []
    for c in cands:
        k = (c["file"], c["old"], c["new"])
        if k in seen:
            continue
        seen.add(k)
        c["id"] = hashlib.sha1(repr(k).encode()).hexdigest()[:10]
        out.append(c)
    return out


def worktree(n):
    d = f"/tmp/vpmut_wt{n}"
    subprocess.run(["git", "-C", REPO, "worktree", "remove", "--force", d], capture_output=True)
    subprocess.run(["git", "-C", REPO, "worktree", "add", "--detach", d, "HEAD"], capture_output=True, check=True)
    return d


def passes_suite(args):
    c, wt = args
    p = os.path.join(wt, c["file"])
    orig = open(os.path.join(REPO, c["file"])).read()
    open(p, "w").write(orig.replace(c["old"] + "\n", c["new"] + "\n", 1))
    try:
        b = subprocess.run([GO, "build", "./..."], cwd=wt, env=ENV, capture_output=True, timeout=300)
        if b.returncode != 0:
            return c["id"], "no-compile"
        t = subprocess.run([GO, "test", "-vet=off", "-count=1", "-timeout", "120s", "./..."], cwd=wt, env=ENV, capture_output=True, timeout=400)
        return c["id"], "passes" if t.returncode == 0 else "killed-by-tests"
    except subprocess.TimeoutExpired:
        return c["id"], "killed-by-tests(timeout)"
    finally:
        open(p, "w").write(orig)


def run_check(args):
    c, prop = args
    rec = f'{c["file"]}:::{c["old"]}:::{c["new"]}'
    out = f"/tmp/vpmut_out/{c['id']}_{prop}"
    os.makedirs(out, exist_ok=True)
    env = dict(ENV, VERIF_SELFTEST_OUT=out, VERIF_SEED="1", PATH=VERIF + "/bin/goshim:" + os.environ["PATH"])
    t0 = time.time()
    try:
        p = subprocess.run([VERIF + "/bin/gosmt", "-prop", prop, "-tier", "quick", "-j", "4", "-mut", rec], cwd=VERIF, env=env, capture_output=True, text=True, timeout=1500)
        rc, txt = p.returncode, p.stdout
    except subprocess.TimeoutExpired:
        rc, txt = 124, ""
    shutil.rmtree(out, ignore_errors=True)
    msg = [l.strip()[:160] for l in txt.split("\n") if "counterexample" in l or l.startswith("INCONCLUSIVE")][:2]
    return c["id"], prop, rc, round(time.time() - t0), msg


def main():
    os.makedirs(OUT, exist_ok=True)
    cmd = sys.argv[1]
    opt = dict(zip(sys.argv[2::2], sys.argv[3::2]))
    files = opt.get("--files", ",".join(FILEMAP)).split(",")
    jobs = int(opt.get("--jobs", "8"))
    if cmd == "gen":
        cands = gen(files)
        json.dump(cands, open(OUT + "/candidates.json", "w"), indent=0)
        print(len(cands), "candidates")
    elif cmd == "filter":
        cands = json.load(open(OUT + "/candidates.json"))
        if "--limit" in opt:
            import random
            random.Random(1).shuffle(cands)
            cands = cands[:int(opt["--limit"])]
        wts = [worktree(i) for i in range(jobs)]
        res = {}
        try:
            with cf.ThreadPoolExecutor(jobs) as ex:
                # one worktree per worker: partition the candidates
                parts = [cands[i::jobs] for i in range(jobs)]
                def work(i):
                    return [passes_suite((c, wts[i])) for c in parts[i]]
                for lst in ex.map(work, range(jobs)):
                    for cid, verdict in lst:
                        res[cid] = verdict
        finally:
            for d in wts:
                subprocess.run(["git", "-C", REPO, "worktree", "remove", "--force", d], capture_output=True)
        surv = [c for c in cands if res.get(c["id"]) == "passes"]
        json.dump({"verdicts": res, "survivors": surv}, open(OUT + "/survivors.json", "w"), indent=0)
        from collections import Counter
        print(Counter(res.values()), len(surv), "survive the existing suite")
    elif cmd == "run":
        surv = json.load(open(OUT + "/survivors.json"))["survivors"]
        tasks = [(c, p) for c in surv for p in FILEMAP[c["file"]]]
        results = []
        with cf.ThreadPoolExecutor(jobs) as ex:
            for r in ex.map(run_check, tasks):
                results.append(r)
                print(r, flush=True)
        json.dump(results, open(OUT + "/results.json", "w"), indent=0)
    elif cmd == "rerun":
        # re-run every mutant no check has reported yet (after harness changes), all mapped checks, and merge
        surv = {c["id"]: c for c in json.load(open(OUT + "/survivors.json"))["survivors"]}
        results = json.load(open(OUT + "/results.json"))
        caught = {cid for cid, prop, rc, secs, msg in results if rc == 1}
        todo = [c for cid, c in surv.items() if cid not in caught]
        if "--files" in opt:
            todo = [c for c in todo if c["file"] in files]
        keep = [r for r in results if r[0] in caught]
        tasks = [(c, p) for c in todo for p in FILEMAP[c["file"]]]
        print(len(todo), "mutants", len(tasks), "runs", flush=True)
        new = []
        with cf.ThreadPoolExecutor(jobs) as ex:
            for r in ex.map(run_check, tasks):
                new.append(list(r))
                print(r, flush=True)
                json.dump(keep + new, open(OUT + "/results2.json", "w"), indent=0)
        json.dump(keep + new, open(OUT + "/results.json", "w"), indent=0)
    elif cmd == "report":
        surv = {c["id"]: c for c in json.load(open(OUT + "/survivors.json"))["survivors"]}
        results = json.load(open(OUT + "/results.json"))
        by = {}
        for cid, prop, rc, secs, msg in results:
            by.setdefault(cid, []).append((prop, rc, msg))
        caught = [cid for cid, rs in by.items() if any(rc == 1 for _, rc, _ in rs)]
        inconc = [cid for cid, rs in by.items() if cid not in caught and any(rc == 2 for _, rc, _ in rs)]
        missed = [cid for cid in by if cid not in caught and cid not in inconc]
        print(f"test-passing mutants: {len(by)}  reported as VIOLATION by some check: {len(caught)}  inconclusive only: {len(inconc)}  passed every mapped check: {len(missed)}")
        for cid in missed + inconc:
            c = surv[cid]
            print(("MISSED " if cid in missed else "INCONC ") + f'{c["file"]}:{c["line"]} [{c["op"]}] {c["old"].strip()[:90]}  ==>  {c["new"].strip()[:70]}')


main()
